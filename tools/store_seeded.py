#!/venv/bin/python
"""tools/store_seeded.py <id> <src dir> <property> <breaks> <needs> <result>: keep a confirmed seeded breakage under /verif/seeded/<id>/"""
import json, os, shutil, sys
sid, src, prop, breaks, needs, result = sys.argv[1:7]
d = f"/verif/seeded/{sid}"
os.makedirs(d, exist_ok=True)
for fn in ("patch.diff", "demo.py", "notes.md"):
    if os.path.exists(os.path.join(src, fn)):
        shutil.copy(os.path.join(src, fn), os.path.join(d, fn))
json.dump({"id": sid, "property": prop, "breaks": breaks, "needs_to_manifest": needs,
           "confirmed": "tools/try_seeded.py: demo.py exits 0 on unmodified /repo and 1 with the patch; sub-agent ran full tests/ with the patch: only the pre-existing test_on_edge failure",
           "what_i_ran": f"tools/try_seeded.py {d} {prop}", "result": result, "source": "independent sub-agent given only the property text and a scratch worktree"},
          open(os.path.join(d, "meta.json"), "w"), indent=1)
print("stored", sid)
