"""
Frame names are any hashable: here the frames are integers and the base
frame is 0.  Moving a frame to a new parent must leave exactly one edge into
it, and every query must follow the current path.
"""
import numpy as np
from trimesh.scene.transforms import SceneGraph
from trimesh import transformations as tf

g = SceneGraph(base_frame=0)
A = tf.translation_matrix([1.0, 0.0, 0.0])
B = tf.rotation_matrix(np.pi / 2, [0, 0, 1])
C = tf.translation_matrix([0.0, 0.0, 3.0])
g.update(1, matrix=A)        # 0 -> 1
g.update(2, matrix=B)        # 0 -> 2
assert np.allclose(g.get(1)[0], A)

# hang frame 1 under frame 2 instead of under the base frame
g.update(1, frame_from=2, matrix=C)

edges = sorted(g.transforms.edge_data.keys())
assert edges == [(0, 2), (2, 1)], "stale edge left behind: %s" % edges
# product of the current edges on the path 0 -> 2 -> 1
assert np.allclose(g.get(1)[0], B @ C), g.get(1)[0]
assert np.allclose(g.get(0, frame_from=1)[0], np.linalg.inv(B @ C))
# T(0,1) = T(0,2) . T(2,1)
assert np.allclose(g.get(1)[0], g.get(2)[0] @ g.get(1, frame_from=2)[0])

# the export rebuilds an equivalent graph
h = SceneGraph(base_frame=0)
h.from_edgelist(g.to_edgelist())
assert np.allclose(h.get(1)[0], B @ C)
assert len(h.transforms.edge_data) == 2

# the same with the empty string as a frame name
s = SceneGraph(base_frame="")
s.update("a", matrix=A)
s.update("b", matrix=B)
s.update("a", frame_from="b", matrix=C)
assert np.allclose(s.get("a")[0], B @ C), s.get("a")[0]
print("ok")
