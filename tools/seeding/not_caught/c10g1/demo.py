"""
Scene.subscene must contain every instance below the requested node, placed
as in the source scene (relative to that node).
"""
import numpy as np
import trimesh
from trimesh.transformations import translation_matrix as T

box = trimesh.creation.box(extents=[1, 1, 1])
s = trimesh.Scene()
# an empty frame `arm` below the base frame
s.graph.update(frame_to="arm", frame_from="world", matrix=T([1, 0, 0]))
# one chain of frames below `arm` (added first) ...
s.add_geometry(box, geom_name="box", node_name="x", parent_node_name="arm", transform=T([0, 2, 0]))
s.add_geometry(box, geom_name="box", node_name="x1", parent_node_name="x", transform=T([0, 2, 0]))
s.add_geometry(box, geom_name="box", node_name="x2", parent_node_name="x1", transform=T([0, 2, 0]))
# ... and several leaves below `arm` (added afterwards)
for i in range(4):
    s.add_geometry(box, geom_name="box", node_name=f"leaf{i}", parent_node_name="arm", transform=T([0, 0, 2.0 * (i + 1)]))

sub = s.subscene("arm")

# explicit placement: every node below `arm`, relative to `arm`
expected = {}
for node in s.graph.nodes_geometry:
    matrix, name = s.graph.get(node, frame_from="arm")
    expected[node] = trimesh.transform_points(s.geometry[name].vertices, matrix)
points = np.vstack(list(expected.values()))
bounds = np.array([points.min(axis=0), points.max(axis=0)])

assert set(sub.graph.nodes_geometry) == set(expected), (
    sorted(sub.graph.nodes_geometry), sorted(expected))
assert np.allclose(sub.bounds, bounds), (sub.bounds, bounds)
assert np.isclose(sub.area, 7 * box.area), sub.area
assert len(sub.dump()) == 7
print("ok")
