#!/venv/bin/python
"""Regenerate MANIFEST.json from the registry (kept in git; run after adding a world)."""
import json
import os
import sys

HERE = os.path.dirname(os.path.dirname(os.path.abspath(__file__)))
sys.path.insert(0, HERE)
sys.path.insert(0, "/repo")
from sim import registry  # noqa: E402

NA = {
    "C03": "mass properties are a polynomial identity in the coordinates of one input mesh: no history, schedule, fault or I/O for a simulator to own; deciding it needs exact arithmetic / input generation, which would be switching technique",
    "C05": "topological queries are pure functions of one face array (the scipy/networkx choice is a static configuration, not an interleaving); nothing for deterministic simulation to schedule or fault",
    "C06": "grouping primitives are pure functions of one array and option flags; no order, fault or stream in the statement",
    "C07": "each re-indexing operation is a pure function of (mesh, mask, options); the C01 machine executes these mutators but only decides cache coherence after them, a different property",
    "C11": "sections and slices are pure functions of (mesh, plane, engine); no history, fault or I/O",
    "C12": "ray/proximity answers are pure functions of (mesh, query); the only nondeterminism (retry direction in contains_points) is seeded in C01 where staleness is decided, the property itself quantifies over query geometry = input generation",
    "C13": "voxel encodings and run-length codecs are pure functions of arrays; the binvox file round trip is exercised inside C08 only",
    "C16": "hulls and bounding volumes are pure functions of a point set",
    "C18": "repair and subdivision are pure functions of (mesh, face subset, bound)",
    "C19": "rotation/transform representation conversions are pure functions of numbers",
}

BUILT = [w for w in sorted(registry.WORLDS) if os.path.exists(os.path.join(HERE, "sim", "props", w.lower() + ".py"))]

checks = []
for wid in BUILT:
    w = registry.get(wid)
    checks.append(
        {
            "property_id": wid,
            "quick_cmd": f"./check {wid} --tier quick",
            "thorough_cmd": f"./check {wid} --tier thorough",
            "evidence_file": f"/verif/evidence/{wid}.json",
            "replay_cmd_template": f"./check {wid} --replay {{path}}",
            "engine": "sim",
            "level_claimed": {"category": w.LEVEL, "text": w.LEVEL_TEXT, "design_ref": f"DESIGN.md section 3, {wid}"},
            "level_note": w.LEVEL_NOTE,
            "technique": w.TECHNIQUE,
        }
    )

na = [{"property_id": k, "reason": v} for k, v in sorted(NA.items())]
for wid in sorted(registry.WORLDS):
    if wid not in BUILT:
        na.append({"property_id": wid, "reason": "simulation target per DESIGN.md section 3 but its check is not built yet in this commit; not claimed until it is"})

manifest = {
    "version": 1,
    "setup_cmd": "./check --smoke",
    "hooks": {
        "guard": "TRIMESH_VERIF_SIM",
        "enable": "no hooks were needed: every seam (global RNGs, uuid4, zipfile clock, builtins.open, file objects, resolvers, sys.monitoring) is patched from outside the package; checks import /repo's working tree via PYTHONPATH",
        "baseline_off_cmd": "cd /repo && /venv/bin/python -m pytest -ra -q -p no:cacheprovider --timeout=900 --continue-on-collection-errors -n 8",
        "source_commits": [],
        "add_only": True,
    },
    "engines": [
        {
            "name": "sim",
            "path": "/verif/sim",
            "serves_properties": BUILT,
            "kind_free_text": "deterministic simulation: one integer -> seeded JSON op/fault program -> execution against real trimesh code with owned seams -> reference-model oracle after every step -> ddmin shrink -> replay file confirmed in a fresh interpreter",
        }
    ],
    "checks": checks,
    "not_applicable": sorted(na, key=lambda d: d["property_id"]),
    "notes": "See DESIGN.md. Genuine defects found are either repaired by 'fix:' commits in /repo or listed in known_findings.json.",
}
with open(os.path.join(HERE, "MANIFEST.json"), "w") as f:
    json.dump(manifest, f, indent=1)
print("checks:", [c["property_id"] for c in checks])
