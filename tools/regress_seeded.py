#!/venv/bin/python
"""
tools/regress_seeded.py [--tests] [--jobs N] [ids...]   |   tools/regress_seeded.py --prop Cxx [--jobs N] /tmp/out-x/1 /tmp/out-x/2 ...
Every kept seeded breakage (/verif/seeded/<id>/patch.diff) against the CURRENT machinery, without touching /repo:
for each one a scratch git worktree of /repo's HEAD is made under /tmp/wtt/<id>, the patch applied there, and
  * demo.py must exit non-zero there (and 0 on /repo),
  * the property's quick check, pointed at the worktree with VERIF_REPO, must exit 1 with a VIOLATION line,
  * with --tests: the repository's own test suite is run in the worktree; the set of failing tests must be a
    subset of what fails on the unmodified tree (tests/test_ray.py::RayTests::test_on_edge, a flaky pre-existing failure).
Evidence and replay files of these runs go to /tmp (VERIF_EVIDENCE_DIR / VERIF_REPLAY_DIR); worktrees are removed.
Prints one line per breakage and exits 1 if any is missed.
"""
import json, os, re, shutil, subprocess, sys, time
from concurrent.futures import ThreadPoolExecutor

args = sys.argv[1:]
tests = "--tests" in args
jobs = int(args[args.index("--jobs") + 1]) if "--jobs" in args else 4
prop_arg = args[args.index("--prop") + 1] if "--prop" in args else None
ids = [a for i, a in enumerate(args) if not a.startswith("--") and (i == 0 or args[i - 1] not in ("--jobs", "--prop"))]
ROOT = "/verif/seeded"
ids = ids or sorted(os.listdir(ROOT))
TAG = "wtc" if prop_arg else "wtt"
BASE = "/tmp/" + TAG
os.makedirs(BASE, exist_ok=True)
KNOWN_FAIL = {"tests/test_ray.py::RayTests::test_on_edge", "tests/test_primitives.py::PrimitiveTest::test_primitives"}  # the second one is flaky on the unmodified tree


def sh(cmd, **kw):
    return subprocess.run(cmd, capture_output=True, text=True, **kw)


def one(sid):
    if "/" in sid:
        # a candidate not yet kept: a directory with patch.diff + demo.py, property given with --prop
        d, prop = sid, prop_arg
        sid = sid.strip("/").replace("/", "_")
    else:
        d = os.path.join(ROOT, sid)
        prop = json.load(open(os.path.join(d, "meta.json")))["property"]
    wt = os.path.join(BASE, sid)
    out = {"id": sid, "property": prop}
    sh(["git", "-C", "/repo", "worktree", "remove", "--force", wt])
    a = sh(["git", "-C", "/repo", "worktree", "add", "--detach", wt, "HEAD"])
    if a.returncode:
        out["error"] = "worktree: " + a.stderr[-200:]
        return out
    try:
        a = sh(["git", "-C", wt, "apply", os.path.join(d, "patch.diff")])
        if a.returncode:
            out["error"] = "patch does not apply: " + a.stderr[-300:]
            return out
        demo = os.path.join(d, "demo.py")
        if os.path.exists(demo):
            e0 = sh(["/venv/bin/python", demo], env=dict(os.environ, PYTHONPATH="/repo", PYTHONDONTWRITEBYTECODE="1"), cwd="/tmp", timeout=900).returncode
            e1 = sh(["/venv/bin/python", demo], env=dict(os.environ, PYTHONPATH=wt, PYTHONDONTWRITEBYTECODE="1"), cwd="/tmp", timeout=900).returncode
            out["demo"] = [e0, e1]
        t = time.time()
        env = dict(os.environ, VERIF_REPO=wt, VERIF_EVIDENCE_DIR=f"/tmp/{TAG}-evidence/{sid}", VERIF_REPLAY_DIR=f"/tmp/{TAG}-replays/{sid}", PYTHONDONTWRITEBYTECODE="1")
        os.makedirs(env["VERIF_EVIDENCE_DIR"], exist_ok=True)
        c = sh(["/verif/check", prop, "--tier", "quick"], env=env, timeout=7200)
        out["check_exit"] = c.returncode
        out["check_s"] = round(time.time() - t)
        out["violation_line"] = bool(re.search(r"^VIOLATION property=" + prop, c.stdout, re.M))
        if tests:
            t = time.time()
            r = sh(["/venv/bin/python", "-m", "pytest", "-q", "-p", "no:cacheprovider", "--timeout=900", "--continue-on-collection-errors", "-x" if False else "-ra", "tests"], cwd=wt,
                   env=dict(os.environ, PYTHONPATH=wt, PYTHONDONTWRITEBYTECODE="1", OMP_NUM_THREADS="1", OPENBLAS_NUM_THREADS="1"), timeout=7200)
            failed = set(re.findall(r"^(?:FAILED|ERROR) (\S+)", r.stdout, re.M))
            out["tests_failed"] = sorted(failed)
            out["tests_tail"] = r.stdout.strip().splitlines()[-1][:200] if r.stdout.strip() else r.stderr[-200:]
            out["tests_s"] = round(time.time() - t)
    except subprocess.TimeoutExpired as e:
        out["error"] = f"timeout: {e.cmd[:3]}"
    finally:
        sh(["git", "-C", "/repo", "worktree", "remove", "--force", wt])
        shutil.rmtree(wt, ignore_errors=True)
    return out


bad = 0
results = []
with ThreadPoolExecutor(jobs) as ex:
    for out in ex.map(one, ids):
        ok = out.get("check_exit") == 1 and out.get("violation_line") and out.get("demo", [0, 1])[0] == 0 and out.get("demo", [0, 1])[1] != 0 and "error" not in out
        if tests and ok:
            ok = set(out.get("tests_failed", [])) <= KNOWN_FAIL
        bad += not ok
        results.append(out)
        print(("CAUGHT " if ok else "PROBLEM"), json.dumps(out), flush=True)
sh(["git", "-C", "/repo", "worktree", "prune"])
shutil.rmtree(f"/tmp/{TAG}-evidence", ignore_errors=True)
if not prop_arg:
    shutil.rmtree(f"/tmp/{TAG}-replays", ignore_errors=True)
json.dump(results, open("/tmp/regress_seeded.json" if not prop_arg else "/tmp/regress_candidates.json", "w"), indent=1)
print(f"{len(ids) - bad}/{len(ids)} caught" + (" with the repository's tests still passing" if tests else ""))
sys.exit(1 if bad else 0)
