#!/venv/bin/python
"""
tools/try_seeded.py <dir with patch.diff + demo.py> <property> [extra check args...]
Apply a seeded breakage to /repo, run the demonstration and the property's quick check, undo.
/repo must be clean (tracked files) before; it is restored afterwards in every case.
"""
import os, subprocess, sys, time

d, prop = sys.argv[1], sys.argv[2]
extra = sys.argv[3:]
patch = os.path.join(d, "patch.diff")
demo = os.path.join(d, "demo.py")
env = dict(os.environ, PYTHONPATH="/repo", PYTHONDONTWRITEBYTECODE="1")

def sh(cmd, **kw):
    return subprocess.run(cmd, capture_output=True, text=True, **kw)

dirty = sh(["git", "-C", "/repo", "status", "--porcelain", "--untracked-files=no"]).stdout.strip()
if dirty:
    sys.exit("refusing: /repo has uncommitted changes:\n" + dirty)
r0 = sh(["/venv/bin/python", demo], env=env, cwd="/tmp", timeout=600) if os.path.exists(demo) else None
print("demo on unmodified tree: exit", r0.returncode if r0 else "n/a")
a = sh(["git", "-C", "/repo", "apply", patch])
if a.returncode:
    print("PATCH DOES NOT APPLY:", a.stderr)
    sys.exit(3)
try:
    r1 = sh(["/venv/bin/python", demo], env=env, cwd="/tmp", timeout=600) if os.path.exists(demo) else None
    print("demo with patch: exit", r1.returncode if r1 else "n/a")
    t = time.time()
    c = sh(["/verif/check", prop, "--tier", "quick"] + extra, timeout=3600, env=dict(os.environ, VERIF_EVIDENCE_DIR="/tmp/verif-seeded-evidence"))
    tail = [ln for ln in c.stdout.splitlines() if not ln.startswith(("KNOWN-FINDING", "note:"))]
    print("\n".join(tail[-14:])[:3000])
    print(f"check exit {c.returncode} in {time.time()-t:.0f}s ->", "CAUGHT" if c.returncode == 1 else ("HARNESS-ERROR" if c.returncode == 2 else "MISSED"))
finally:
    sh(["git", "-C", "/repo", "checkout", "--", "."])
    print("repo restored:", sh(["git", "-C", "/repo", "status", "--porcelain", "--untracked-files=no"]).stdout.strip() or "clean")
