"""World registry: property id -> world module (imported lazily)."""
import importlib

WORLDS = {
    "C01": "sim.props.c01",
    "C02": "sim.props.c02",
    "C04": "sim.props.c04",
    "C08": "sim.props.c08",
    "C09": "sim.props.c09",
    "C10": "sim.props.c10",
    "C14": "sim.props.c14",
    "C15": "sim.props.c15",
    "C17": "sim.props.c17",
    "C20": "sim.props.c20",
}


def get(world_id):
    if world_id not in WORLDS:
        raise SystemExit(f"unknown or not-applicable property {world_id}")
    return importlib.import_module(WORLDS[world_id]).WORLD
