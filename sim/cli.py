"""./check <id> [--tier quick|thorough] [--seed n] [--runs n] [--replay f] [--one i] [--selftest]"""
import argparse
import json
import os
import sys

sys.path.insert(0, os.path.dirname(os.path.dirname(os.path.abspath(__file__))))

from sim import registry  # noqa: E402
from sim.core import findings, runner, seams  # noqa: E402
from sim.core.engine import derive, execute, make_program  # noqa: E402


def main():
    ap = argparse.ArgumentParser()
    ap.add_argument("prop", nargs="?")
    ap.add_argument("--tier", default=os.environ.get("VERIF_TIER") or "quick", choices=["quick", "thorough"])
    ap.add_argument("--seed", type=int, default=None)
    ap.add_argument("--runs", type=int, default=None)
    ap.add_argument("--wall", type=float, default=None)
    ap.add_argument("--workers", type=int, default=None)
    ap.add_argument("--replay")
    ap.add_argument("--one", type=int, default=None, help="execute a single run index in this process")
    ap.add_argument("--show", type=int, default=None, help="print the program of a run index")
    ap.add_argument("--smoke", action="store_true")
    ap.add_argument("--selftest", choices=["determinism", "sensitivity"], default=None)
    a = ap.parse_args()

    if a.smoke:
        from sim.selftest import smoke
        sys.exit(smoke.main())

    world = registry.get(a.prop)
    world.TIER = a.tier
    seed = a.seed
    if seed is None:
        env = os.environ.get("VERIF_SEED", "")
        seed = int(env) if env.strip().lstrip("-").isdigit() else world.DEFAULT_SEED[a.tier]

    if a.replay:
        sys.exit(runner.replay(world, a.replay))
    if a.selftest:
        from sim.selftest import determinism, sensitivity
        mod = determinism if a.selftest == "determinism" else sensitivity
        sys.exit(mod.main(world, a.tier, seed, a))
    if a.one is not None or a.show is not None:
        seams.install()
        idx = a.one if a.one is not None else a.show
        program = make_program(world, derive(seed, world.ID, a.tier), idx)
        if a.show is not None:
            print(json.dumps(program, indent=1))
            sys.exit(0)
        res = execute(world, program, findings.load(world.ID))
        if res.error:
            print(res.error)
            sys.exit(2)
        if res.violation:
            print(json.dumps(res.violation.record(), indent=1))
            sys.exit(1)
        print("ok", res.digest, dict(res.ctx.counts))
        sys.exit(0)

    runs = a.runs or world.RUNS[a.tier]
    wall = a.wall or world.WALL[a.tier]
    rc, _ = runner.run_check(world, a.tier, seed, runs, wall, workers=a.workers)
    sys.exit(rc)


if __name__ == "__main__":
    main()
