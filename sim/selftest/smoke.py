"""setup_cmd: import everything and execute a few runs of every built world (seconds)."""
import os
import sys
import time

from .. import registry
from ..core import findings, seams
from ..core.engine import derive, execute, make_program


def main():
    t0 = time.time()
    seams.install()
    import trimesh

    print("trimesh", trimesh.__version__, "from", os.path.dirname(trimesh.__file__))
    bad = 0
    here = os.path.dirname(os.path.dirname(os.path.abspath(__file__)))
    for wid in sorted(registry.WORLDS):
        if not os.path.exists(os.path.join(here, "props", wid.lower() + ".py")):
            continue
        world = registry.get(wid)
        known = findings.load(wid)
        n_err = 0
        for i in range(3):
            prog = make_program(world, derive(1, wid, "smoke"), i)
            r = execute(world, prog, known)
            if r.error:
                n_err += 1
                print(r.error)
        print(f"smoke {wid}: 3 runs, harness errors {n_err}")
        bad += n_err
    print(f"smoke done in {time.time() - t0:.1f}s")
    return 0 if bad == 0 else 2
