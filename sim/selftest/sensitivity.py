"""Sensitivity self-test: in-process mutants (monkeypatched breakages) must be reported. Filled per world."""


def main(world, tier, seed, args):
    muts = getattr(world, "MUTANTS", None)
    if not muts:
        print("no in-process mutants registered for", world.ID)
        return 0
    from ..core import findings, seams
    from ..core.engine import derive, execute, make_program

    seams.install()
    known = findings.load(world.ID)
    master = derive(seed, world.ID, tier)
    n = args.runs or 3000
    survived = []
    for name, install in muts.items():
        undo = install()
        hit = None
        try:
            for i in range(n):
                r = execute(world, make_program(world, master, i), known)
                if r.violation is not None or r.error is not None:
                    hit = (i, r.violation.vclass if r.violation else "error")
                    break
        finally:
            undo()
        print(f"mutant {name}: " + (f"caught at run {hit[0]} {hit[1]}" if hit else f"SURVIVED {n} runs"))
        if not hit:
            survived.append(name)
    print("SENSITIVITY", "OK" if not survived else f"SURVIVORS {survived}")
    return 0 if not survived else 3
