"""
Determinism self-test: the same run indices executed (a) twice in this process, (b) in fresh
interpreters under different PYTHONHASHSEED values and worker counts, must give equal event-log digests.
"""
import json
import os
import subprocess
import sys

from ..core import findings, seams
from ..core.engine import derive, execute, make_program

VERIF = os.path.dirname(os.path.dirname(os.path.dirname(os.path.abspath(__file__))))


def digests(world, tier, seed, n):
    seams.install()
    known = findings.load(world.ID)
    master = derive(seed, world.ID, tier)
    out = []
    for i in range(n):
        r = execute(world, make_program(world, master, i), known)
        out.append(r.digest + ("!" if r.error else "") + ("V" if r.violation else ""))
    return out


def main(world, tier, seed, args):
    n = args.runs or 200
    if os.environ.get("VERIF_DET_CHILD"):
        print("DIGESTS " + json.dumps(digests(world, tier, seed, n)))
        return 0
    a = digests(world, tier, seed, n)
    b = digests(world, tier, seed, n)
    ok = a == b
    print(f"[{world.ID}] same process twice: {'equal' if ok else 'DIFFERENT'} ({n} runs)")
    for hs in ("0", "1", "12345", "random"):
        env = dict(os.environ, VERIF_DET_CHILD="1", PYTHONHASHSEED=hs)
        p = subprocess.run([os.path.join(VERIF, "check"), world.ID, "--tier", tier, "--seed", str(seed), "--runs", str(n), "--selftest", "determinism"], env=env, capture_output=True, text=True, timeout=3600)
        line = [ln for ln in p.stdout.splitlines() if ln.startswith("DIGESTS ")]
        if not line:
            print(p.stdout[-2000:], p.stderr[-2000:])
            ok = False
            continue
        c = json.loads(line[0][8:])
        same = c == a
        if not same:
            diff = [i for i, (x, y) in enumerate(zip(a, c)) if x != y]
            print(f"  first differing runs: {diff[:10]}")
        print(f"[{world.ID}] fresh interpreter PYTHONHASHSEED={hs}: {'equal' if same else 'DIFFERENT'}")
        ok = ok and same
    errs = [i for i, d in enumerate(a) if d.endswith("!")]
    if errs:
        print("harness errors in runs", errs[:10])
        ok = False
    print("DETERMINISM", "OK" if ok else "FAILED")
    return 0 if ok else 2
