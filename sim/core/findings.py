"""known_findings.json: committed, never written at run time."""
import json
import os

PATH = os.path.join(os.path.dirname(os.path.dirname(os.path.dirname(os.path.abspath(__file__)))), "known_findings.json")


def load_all():
    if not os.path.exists(PATH):
        return []
    with open(PATH) as f:
        return json.load(f).get("findings", [])


def load(property_id):
    """{finding id: entry} for one property (recorded and fixed entries)."""
    return {f["id"]: f for f in load_all() if f.get("property") == property_id}
