"""
Resource monitors for the fault-injection world (C20):
 * simulated time = Python LINE events executed inside the code under test (sys.monitoring),
   bounded by a budget that raises *inside* that code and keeps raising until control returns;
 * memory = tracemalloc peak (numpy registers its buffers);
 * handles = every file object created through builtins.open / io.open during the call.
 * backstop for loops the line counter cannot see (a regular expression backtracking inside the C matcher): the process's own
   CPU timer (ITIMER_VIRTUAL, not the wall clock: machine load does not move it) fires every NATIVE_SECONDS of CPU time; if not a
   single monitored line ran in between, the code under test is stuck in native code and the budget exception is raised there
   (CPython's matcher and most long C loops poll for signals).
Deterministic: no wall clock is read; the backstop only tells "no progress at all for many CPU-seconds" from "progress".
"""
import signal
import builtins
import io
import os
import sys
import tracemalloc

TOOL = sys.monitoring.PROFILER_ID
EV = sys.monitoring.events


def _rss():
    try:
        with open("/proc/self/statm") as f:
            return int(f.read().split()[1]) * os.sysconf("SC_PAGE_SIZE")
    except (OSError, ValueError, IndexError):
        return 0


class StepBudgetExceeded(BaseException):
    """Raised inside the code under test when the step budget is exhausted."""


NATIVE_SECONDS = 8.0


class Monitor:
    def __init__(self, prefixes, exclude=()):
        self._seen_steps = -1
        self.prefixes = tuple(prefixes)
        # pure-Python helpers whose work is bounded by construction (chunk-sampling charset detection): not counted, ~100x faster
        self.exclude = tuple(exclude)
        self.steps = 0
        self.budget = None
        self.raised = 0
        self.active = False
        self.installed = False
        self.opened = []
        self._real_open = builtins.open
        self._real_io_open = io.open

    # ---------------------------------------------------------------- step counting
    def install(self):
        if self.installed:
            return
        try:
            sys.monitoring.use_tool_id(TOOL, "verif-steps")
        except ValueError:
            pass
        sys.monitoring.register_callback(TOOL, EV.PY_START, self._on_start)
        sys.monitoring.register_callback(TOOL, EV.LINE, self._on_line)
        sys.monitoring.set_events(TOOL, EV.PY_START)
        self.installed = True

    def _on_start(self, code, offset):
        # switch on LINE events only for code objects of the library under test and its pure-Python dependencies
        if code.co_filename.startswith(self.prefixes) and not (self.exclude and any(x in code.co_filename for x in self.exclude)):
            try:
                sys.monitoring.set_local_events(TOOL, code, EV.LINE)
            except Exception:
                pass
        return sys.monitoring.DISABLE

    def _on_line(self, code, line):
        if not self.active:
            return
        self.steps += 1
        if self.budget is not None and self.steps > self.budget:
            self.raised += 1
            if self.raised > 20000:
                # the code under test swallows the exception forever: give up, reserved exit code
                os._exit(97)
            raise StepBudgetExceeded(f"step budget {self.budget} exceeded at {code.co_filename}:{line}")

    def _on_cpu_timer(self, signum, frame):
        if not self.active:
            return
        if self.steps == self._seen_steps:
            self.raised += 1
            if self.raised > 50:
                os._exit(97)
            raise StepBudgetExceeded(f"no monitored line executed during {NATIVE_SECONDS} s of CPU time: stuck in native code")
        self._seen_steps = self.steps

    # ---------------------------------------------------------------- handles
    def _tracking_open(self, real):
        mon = self

        def _open(*a, **k):
            f = real(*a, **k)
            if mon.active:
                mon.opened.append(f)
            return f

        return _open

    # ---------------------------------------------------------------- one monitored call
    def run(self, fn, budget):
        """Returns dict(outcome, value|exc, steps, peak, leaked)."""
        self.install()
        if not tracemalloc.is_tracing():
            tracemalloc.start(1)
        self.steps, self.raised, self.budget, self.opened = 0, 0, budget, []
        builtins.open = self._tracking_open(self._real_open)
        io.open = self._tracking_open(self._real_io_open)
        try:
            nfd0 = len(os.listdir("/proc/self/fd"))
        except OSError:
            nfd0 = None
        rss0 = _rss()
        tracemalloc.reset_peak()
        base = tracemalloc.get_traced_memory()[0]
        out = {"outcome": None, "value": None, "exc": None}
        self._seen_steps = -1
        try:
            old_handler = signal.signal(signal.SIGVTALRM, self._on_cpu_timer)
            signal.setitimer(signal.ITIMER_VIRTUAL, NATIVE_SECONDS, NATIVE_SECONDS)
            timer = True
        except (ValueError, OSError, AttributeError):
            timer = False  # not the main thread: the block timeout of the runner is the only backstop
        self.active = True
        try:
            try:
                out["value"] = fn()
                out["outcome"] = "returned"
            finally:
                self.active = False
                if timer:
                    signal.setitimer(signal.ITIMER_VIRTUAL, 0.0)
                    signal.signal(signal.SIGVTALRM, old_handler)
        except StepBudgetExceeded as e:
            out["outcome"], out["exc"] = "step-budget", e
        except MemoryError as e:
            out["outcome"], out["exc"] = "memory-error", e
        except Exception as e:
            out["outcome"], out["exc"] = "raised", e
        except BaseException as e:  # SystemExit, KeyboardInterrupt, GeneratorExit, bare BaseException
            out["outcome"], out["exc"] = "base-exception", e
        finally:
            self.active = False
            builtins.open = self._real_open
            io.open = self._real_io_open
        out["steps"] = self.steps
        out["swallowed_budget"] = self.raised > 0 and out["outcome"] != "step-budget"
        out["peak"] = max(0, tracemalloc.get_traced_memory()[1] - base)
        # resident set growth that survives the call (allocations of C libraries tracemalloc cannot see: decoded images, XML trees)
        out["rss_delta"] = max(0, _rss() - rss0)
        out["leaked"] = [getattr(f, "name", "?") for f in self.opened if not getattr(f, "closed", True)]
        out["opened"] = len(self.opened)
        try:
            out["fd_delta"] = (len(os.listdir("/proc/self/fd")) - nfd0) if nfd0 is not None else 0
        except OSError:
            out["fd_delta"] = 0
        for f in self.opened:
            try:
                f.close()
            except Exception:
                pass
        self.opened = []
        return out
