"""
Seams the simulator owns: global RNGs, uuid4, the clock seen by zipfile/tarfile, BLAS threads.
Installed once per process (idempotent), reset at the beginning of every run.
"""
import os
import random
import time as _real_time
import types
import uuid

import numpy as np

_installed = False
_uuid_rng = random.Random(0)
_real_uuid4 = uuid.uuid4
SIM_EPOCH = 1_600_000_000.0  # 2020-09-13, fixed simulated wall clock
_clock = [SIM_EPOCH]


def _uuid4():
    return uuid.UUID(int=_uuid_rng.getrandbits(128), version=4)


class _SimTime(types.ModuleType):
    """time module lookalike handed to zipfile / tarfile / gzip: fixed simulated clock."""

    def __init__(self):
        super().__init__("time")
        for k in dir(_real_time):
            if not k.startswith("__"):
                setattr(self, k, getattr(_real_time, k))
        self.time = lambda: _clock[0]
        self.localtime = lambda t=None: _real_time.gmtime(_clock[0] if t is None else t)
        self.gmtime = lambda t=None: _real_time.gmtime(_clock[0] if t is None else t)


def install():
    global _installed
    if _installed:
        return
    for k in ("OMP_NUM_THREADS", "OPENBLAS_NUM_THREADS", "MKL_NUM_THREADS"):
        os.environ.setdefault(k, "1")
    uuid.uuid4 = _uuid4
    import warnings

    warnings.simplefilter("ignore")
    np.seterr(all="ignore")
    import logging

    logging.disable(logging.CRITICAL)
    import gzip
    import tarfile
    import zipfile

    sim_time = _SimTime()
    try:
        # pycollada stamps every document with datetime.now()
        import datetime as _dt

        import collada.asset

        class _FixedDateTime(_dt.datetime):
            @classmethod
            def now(cls, tz=None):
                return cls.fromtimestamp(_clock[0], tz=_dt.timezone.utc).replace(tzinfo=None)

        shim = types.ModuleType("datetime")
        for k in dir(_dt):
            if not k.startswith("__"):
                setattr(shim, k, getattr(_dt, k))
        shim.datetime = _FixedDateTime
        collada.asset.datetime = shim
    except Exception:
        pass
    zipfile.time = sim_time
    tarfile.time = sim_time
    gzip.time = sim_time
    _installed = True


def begin_run(seed: int):
    install()
    seed = int(seed)
    _uuid_rng.seed(seed)
    _clock[0] = SIM_EPOCH + (seed % 86400)
    np.random.seed(seed % (2**32))
    random.seed(seed)


def end_run():
    pass


def advance_clock(dt: float):
    _clock[0] += dt
