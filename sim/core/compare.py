"""
Tolerance classes (DESIGN §2.2). Each function returns None when equal, else a short description.
"""
import numpy as np

EXACT = "EXACT"
GEOM = "GEOM"
UNIT = "UNIT"
ANGLE = "ANGLE"
SETLIKE = "SETLIKE"

REL = 1e-9
ANGLE_TOL = 1e-6


def _arr(x):
    if hasattr(x, "toarray"):
        x = x.toarray()
    return np.asarray(x)


def exact(got, want):
    g, w = _arr(got), _arr(want)
    if g.shape != w.shape:
        return f"shape {g.shape} != {w.shape}"
    if g.dtype.kind == "f" or w.dtype.kind == "f":
        same = (g == w) | (np.isnan(g.astype(float)) & np.isnan(w.astype(float)))
    else:
        same = g == w
    if not np.all(same):
        bad = np.argwhere(~np.atleast_1d(same))
        return f"{len(bad)} element(s) differ, first at {bad[0].tolist()}: got {np.atleast_1d(g)[tuple(bad[0])]!r} want {np.atleast_1d(w)[tuple(bad[0])]!r}"
    return None


def close(got, want, tol):
    g, w = _arr(got), _arr(want)
    if g.shape != w.shape:
        return f"shape {g.shape} != {w.shape}"
    if g.size == 0:
        return None
    g = g.astype(np.float64)
    w = w.astype(np.float64)
    nan_g, nan_w = np.isnan(g), np.isnan(w)
    if not np.array_equal(nan_g, nan_w):
        return "NaN pattern differs"
    inf_g, inf_w = np.isinf(g), np.isinf(w)
    if not np.array_equal(inf_g, inf_w) or not np.array_equal(g[inf_g], w[inf_w]):
        return "inf pattern differs"
    fin = ~(nan_g | inf_g)
    if not fin.any():
        return None
    d = np.abs(g[fin] - w[fin])
    m = float(d.max())
    if m > tol:
        return f"max |diff| {m:.3e} > tol {tol:.1e}"
    return None


def geom(got, want, scale=1.0, k=1, rel=REL):
    """|a-b| <= rel * S^k (S = world scale, k = dimension of the quantity)."""
    return close(got, want, rel * max(scale, 1e-12) ** k)


def unit(got, want):
    return close(got, want, 1e-9)


def angle(got, want):
    return close(got, want, ANGLE_TOL)


def canon_rows(a):
    """Sort rows lexicographically (for SETLIKE comparison of row sets)."""
    a = _arr(a)
    if a.ndim == 1:
        return np.sort(a)
    if len(a) == 0:
        return a
    return a[np.lexsort(a.T[::-1])]


def setlike_rows(got, want):
    return exact(canon_rows(got), canon_rows(want))


def signed_axes(got, want, tol=1e-6):
    """Compare two sets of axes (rows) up to sign of each row."""
    g, w = _arr(got).astype(float), _arr(want).astype(float)
    if g.shape != w.shape:
        return f"shape {g.shape} != {w.shape}"
    for a, b in zip(g, w):
        if min(np.abs(a - b).max(), np.abs(a + b).max()) > tol:
            return f"axis {a} vs {b}"
    return None
