"""
Minimisation: ddmin over the op list, then world-specific per-op and per-program simplifications,
accepting a candidate only when it fails with the same violation class.
"""
import copy
import time

from .engine import execute


def shrink(world, program, vclass, known=None, budget_s=30.0):
    t_end = time.monotonic() + budget_s
    tries = [0]

    def fails(p):
        tries[0] += 1
        r = execute(world, p, known)
        return r.violation is not None and r.violation.vclass == vclass

    def with_ops(p, ops):
        q = dict(p)
        q["ops"] = ops
        return q

    best = program
    # ---- phase 1: ddmin over ops
    ops = list(best.get("ops", []))
    n = 2
    while len(ops) >= 1 and time.monotonic() < t_end:
        chunk = max(1, len(ops) // n)
        reduced = False
        i = 0
        while i < len(ops) and time.monotonic() < t_end:
            cand = ops[:i] + ops[i + chunk :]
            if len(cand) < len(ops) and fails(with_ops(best, cand)):
                ops = cand
                best = with_ops(best, ops)
                n = max(n - 1, 2)
                reduced = True
            else:
                i += chunk
        if not reduced:
            if chunk == 1:
                break
            n = min(len(ops), n * 2)
    # ---- phase 2: world-specific simplification to a fixpoint
    changed = True
    while changed and time.monotonic() < t_end:
        changed = False
        # whole-program candidates (smaller base object, simpler config)
        for cand in world.simplify_program(copy.deepcopy(best)):
            if time.monotonic() >= t_end:
                break
            if cand != best and fails(cand):
                best = cand
                changed = True
                break
        ops = list(best.get("ops", []))
        for i in range(len(ops)):
            if time.monotonic() >= t_end:
                break
            for cand_op in world.simplify_op(copy.deepcopy(ops[i])):
                if cand_op == ops[i]:
                    continue
                cand = ops[:i] + [cand_op] + ops[i + 1 :]
                if fails(with_ops(best, cand)):
                    ops = cand
                    best = with_ops(best, ops)
                    changed = True
                    break
        # single-op deletion again after simplification
        i = 0
        while i < len(ops) and time.monotonic() < t_end:
            cand = ops[:i] + ops[i + 1 :]
            if fails(with_ops(best, cand)):
                ops = cand
                best = with_ops(best, ops)
                changed = True
            else:
                i += 1
    return best, tries[0]
