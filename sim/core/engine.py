"""
Core of the deterministic simulation engine.

seed -> (config, program) -> execute in a fresh world -> oracle -> Violation | ok
Every run is a pure function of its program (a JSON-serialisable dict) and the code under test.
"""
import hashlib
import json
import random
import traceback
from collections import Counter

import numpy as np

from . import seams


def derive(*parts) -> int:
    """Derive a 64-bit integer from the given parts (stable across processes / hash seeds)."""
    h = hashlib.blake2b(digest_size=8)
    for p in parts:
        h.update(repr(p).encode("utf-8"))
        h.update(b"\x00")
    return int.from_bytes(h.digest(), "big")


class Violation(Exception):
    """The property does not hold on the real code for this program."""

    def __init__(self, oracle, observable, detail="", step=None):
        super().__init__(f"{oracle}/{observable}: {detail}")
        self.oracle = oracle
        self.observable = observable
        self.detail = detail
        self.step = step

    @property
    def vclass(self):
        return [self.oracle, self.observable]

    def record(self):
        return {
            "oracle": self.oracle,
            "observable": self.observable,
            "step": self.step,
            "detail": str(self.detail)[:2000],
        }


class Inapplicable(Exception):
    """An op cannot be applied in the current state (happens while shrinking); skipped."""


class HarnessError(Exception):
    pass


def _norm(x):
    """Normalise a value for the event log: no ids, no addresses, stable floats."""
    if isinstance(x, np.ndarray):
        if x.dtype.kind == "f":
            x = np.round(np.nan_to_num(x.astype(np.float64), nan=1e300, posinf=2e300, neginf=-2e300), 7) + 0.0
        elif x.dtype.kind == "O":
            return "O:" + repr([_norm(i) for i in x.tolist()])
        return f"{x.dtype.str}{x.shape}:" + hashlib.blake2b(
            np.ascontiguousarray(x).tobytes(), digest_size=8
        ).hexdigest()
    if isinstance(x, (float, np.floating)):
        return repr(round(float(x), 7) + 0.0)
    if isinstance(x, (int, np.integer, bool, np.bool_, str, type(None))):
        return repr(x)
    if isinstance(x, bytes):
        return "b:" + hashlib.blake2b(x, digest_size=8).hexdigest()
    if isinstance(x, (list, tuple)):
        return "[" + ",".join(_norm(i) for i in x) + "]"
    if isinstance(x, (set, frozenset)):
        return "{" + ",".join(sorted(_norm(i) for i in x)) + "}"
    if isinstance(x, dict):
        return "{" + ",".join(sorted(_norm(k) + ":" + _norm(v) for k, v in x.items())) + "}"
    return type(x).__name__


class Ctx:
    """Per-run context: event log, reach counters, coverage keys, known-finding hits."""

    def __init__(self, known=None):
        self.lines = []
        self.counts = Counter()
        self.cover = set()
        self.findings = Counter()
        self.known = known if known is not None else {}
        self.step = None
        self.steps_sim = 0  # simulated time (world-defined unit)

    def event(self, *parts):
        # logging draws from no PRNG and reads no clock
        self.lines.append("|".join(_norm(p) for p in parts))

    def count(self, name, n=1):
        self.counts[name] += n

    def reach(self, *key):
        self.cover.add("/".join(str(k) for k in key))

    def is_known(self, fid):
        f = self.known.get(fid)
        return f is not None and f.get("status") == "recorded"

    def finding(self, fid, detail=""):
        """Report that the listed finding `fid` reproduced with its predicted wrong behaviour."""
        if not self.is_known(fid):
            raise Violation("unlisted-finding", fid, detail, self.step)
        self.findings[fid] += 1
        self.event("finding", fid)

    def fail(self, oracle, observable, detail=""):
        raise Violation(oracle, observable, detail, self.step)

    def digest(self):
        h = hashlib.blake2b(digest_size=12)
        for line in self.lines:
            h.update(line.encode("utf-8"))
            h.update(b"\n")
        return h.hexdigest()


class Result:
    __slots__ = ("violation", "error", "ctx", "digest")

    def __init__(self):
        self.violation = None
        self.error = None
        self.ctx = None
        self.digest = None


def execute(world, program, known=None) -> Result:
    """Run one program in a fresh world. Never raises for a violation."""
    res = Result()
    ctx = Ctx(known)
    res.ctx = ctx
    seams.begin_run(program.get("seed", 0))
    try:
        world.execute(program, ctx)
    except Violation as v:
        res.violation = v
        ctx.event("VIOLATION", v.oracle, v.observable)
    except (KeyboardInterrupt, SystemExit):
        raise
    except BaseException as e:  # harness or unexpected library exception escaping the world
        res.error = "".join(traceback.format_exception(type(e), e, e.__traceback__))[-4000:]
        ctx.event("ERROR", type(e).__name__)
    finally:
        seams.end_run()
    res.digest = ctx.digest()
    return res


def make_program(world, master, index):
    rng = random.Random(derive(master, index))
    config = world.swarm(rng)
    program = world.generate(rng, config)
    program["world"] = world.ID
    program["seed"] = derive(master, index, "seams") % (2**31)
    program["index"] = index
    program.setdefault("config", config)
    # programs must be pure JSON: round-trip now so that replay sees exactly what ran
    return json.loads(json.dumps(program))


def seed_lib_rng(op_or_seed):
    """Reseed the library's global RNGs before an op so shrinking never shifts draws."""
    s = op_or_seed if isinstance(op_or_seed, int) else int(op_or_seed.get("rs", 0))
    np.random.seed(s % (2**32))
    random.seed(s)
