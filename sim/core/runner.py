"""
Batch runner: seeded search over many simulated runs on all cores, first failure is minimised,
written as a replay file, confirmed in a fresh interpreter and reported.
"""
import faulthandler
import json
import multiprocessing
import os
import shutil
import subprocess
import sys
import tempfile
import time
from collections import Counter
from concurrent.futures import FIRST_COMPLETED, ProcessPoolExecutor, wait
from concurrent.futures.process import BrokenProcessPool

from . import evidence, findings, seams
from .engine import derive, execute, make_program
from .shrink import shrink

VERIF = os.path.dirname(os.path.dirname(os.path.dirname(os.path.abspath(__file__))))
# (VERIF_REPLAY_DIR: used by tools/regress_seeded.py so that runs against patched scratch trees leave nothing in /verif)
REPLAYS = os.environ.get("VERIF_REPLAY_DIR") or os.path.join(VERIF, "replays")

_W = {}


def _worker_init(world_id, master, scratch, block_timeout, tier="quick"):
    from .. import registry

    seams.install()
    _W["world"] = registry.get(world_id)
    _W["world"].TIER = tier
    _W["master"] = master
    _W["known"] = findings.load(world_id)
    _W["journal"] = open(os.path.join(scratch, f"w{os.getpid()}.journal"), "w")
    _W["block_timeout"] = block_timeout
    limit = getattr(_W["world"], "WORKER_ADDRESS_SPACE", None)
    if limit:
        # a backstop for worlds that feed hostile input: a runaway allocation becomes a MemoryError inside the worker
        import resource

        try:
            resource.setrlimit(resource.RLIMIT_AS, (int(limit), int(limit)))
        except (ValueError, OSError):
            pass


def _agg_new():
    return {
        "runs": 0,
        "counts": Counter(),
        "cover": set(),
        "findings": Counter(),
        "digest": 0,
        "sim_steps": 0,
        "samples": [],
        "prog_digests": set(),
    }


def _agg_add(agg, index, program, res, keep_sample):
    agg["runs"] += 1
    agg["counts"].update(res.ctx.counts)
    agg["cover"].update(res.ctx.cover)
    agg["findings"].update(res.ctx.findings)
    agg["digest"] ^= derive(index, res.digest)
    agg["sim_steps"] += res.ctx.steps_sim
    agg["prog_digests"].add(derive(json.dumps(program.get("ops", []), sort_keys=True), json.dumps(program.get("config", {}), sort_keys=True)))
    if keep_sample and len(agg["samples"]) < 1:
        agg["samples"].append(program)


def _run_block(lo, hi, shrink_budget):
    world, master, known = _W["world"], _W["master"], _W["known"]
    faulthandler.dump_traceback_later(_W["block_timeout"], exit=True)
    agg = _agg_new()
    out = {"lo": lo, "hi": hi, "agg": agg, "violation": None, "error": None}
    try:
        for i in range(lo, hi):
            j = _W["journal"]
            j.seek(0)
            j.write(f"{i:<12d}")
            j.flush()
            program = make_program(world, master, i)
            res = execute(world, program, known)
            _agg_add(agg, i, program, res, keep_sample=(i == lo))
            if os.environ.get("VERIF_DUMP_DIGESTS"):
                # (debugging aid: one line per run, to find the run whose event log differs between two identical batches)
                with open(os.environ["VERIF_DUMP_DIGESTS"] + f".{os.getpid()}", "a") as fh:
                    fh.write(f"{i} {res.digest}\n")
                    if str(i) == os.environ.get("VERIF_DUMP_LINES_INDEX"):
                        fh.write("LINES " + " ;; ".join(res.ctx.lines) + "\n")
            if res.error is not None:
                out["error"] = {"index": i, "trace": res.error, "program": program}
                return out
            if res.violation is not None:
                v = res.violation
                small, tries = shrink(world, program, v.vclass, known, budget_s=shrink_budget)
                res2 = execute(world, small, known)
                rec = (res2.violation or v).record()
                out["violation"] = {
                    "index": i,
                    "record": rec,
                    "vclass": v.vclass,
                    "program": small,
                    "original_ops": len(program.get("ops", [])),
                    "minimised_ops": len(small.get("ops", [])),
                    "shrink_tries": tries,
                    "digest": res2.digest,
                }
                return out
        return out
    finally:
        faulthandler.cancel_dump_traceback_later()
        _W["journal"].seek(0)
        _W["journal"].write(f"{-1:<12d}")
        _W["journal"].flush()


def write_replay(world_id, seed, viol):
    os.makedirs(REPLAYS, exist_ok=True)
    path = os.path.join(REPLAYS, f"{world_id}-{seed}-{viol['index']}.json")
    payload = {
        "property": world_id,
        "seed": seed,
        "index": viol["index"],
        "violation": viol["record"],
        "vclass": viol["vclass"],
        "program": viol["program"],
        "digest": viol.get("digest"),
        "original_ops": viol.get("original_ops"),
        "minimised_ops": viol.get("minimised_ops"),
        "repo_rev": repo_rev(),
    }
    with open(path, "w") as f:
        json.dump(payload, f, indent=1, sort_keys=True)
    return path


def repo_rev():
    try:
        repo = os.environ.get("VERIF_REPO", "/repo")
        head = subprocess.run(["git", "-C", repo, "rev-parse", "--short", "HEAD"], capture_output=True, text=True, timeout=20).stdout.strip()
        dirty = subprocess.run(["git", "-C", repo, "status", "--porcelain", "--untracked-files=no"], capture_output=True, text=True, timeout=20).stdout.strip()
        return head + ("+dirty" if dirty else "")
    except Exception:
        return "unknown"


def confirm_replay(world_id, path, timeout=300):
    """Replay in a fresh interpreter; True iff it reproduces the same violation class."""
    cmd = [os.path.join(VERIF, "check"), world_id, "--replay", path]
    try:
        p = subprocess.run(cmd, capture_output=True, text=True, timeout=timeout)
    except subprocess.TimeoutExpired:
        return False, "replay timed out"
    ok = p.returncode == 1 and "REPLAY-REPRODUCED" in p.stdout
    return ok, (p.stdout + p.stderr)[-3000:]


def replay(world, path):
    """`./check <id> --replay file`: exit 1 + VIOLATION line when the stored violation reproduces."""
    with open(path) as f:
        payload = json.load(f)
    known = findings.load(world.ID)
    res = execute(world, payload["program"], known)
    if res.error is not None:
        print("HARNESS-ERROR during replay")
        print(res.error)
        return 2
    if res.violation is None:
        print(f"replay of {path}: no violation (property held)")
        return 0
    rec = res.violation.record()
    print(json.dumps({"violation": rec, "digest": res.digest}, indent=1))
    if res.violation.vclass == payload.get("vclass", res.violation.vclass):
        print("REPLAY-REPRODUCED")
    else:
        print("REPLAY-DIFFERENT-VIOLATION")
    print(f"VIOLATION property={world.ID} replay={path}")
    return 1


def _probe_death(world_id, tier, seed, index):
    """Re-run one index alone in a fresh interpreter; report how it ends."""
    cmd = [os.path.join(VERIF, "check"), world_id, "--tier", tier, "--seed", str(seed), "--one", str(index)]
    try:
        p = subprocess.run(cmd, capture_output=True, text=True, timeout=180)
        return p.returncode, (p.stdout + p.stderr)[-2000:]
    except subprocess.TimeoutExpired:
        return "timeout", ""


def run_check(world, tier, seed, runs, wall_cap, workers=None, block=None, shrink_budget=30.0, quiet=False):
    t0 = time.monotonic()
    world.TIER = tier
    world_id = world.ID
    master = derive(seed, world_id, tier)
    workers = workers or min(16, os.cpu_count() or 1)
    block = block or max(1, min(world.BLOCK, (runs + workers * 4 - 1) // (workers * 4)))
    known = findings.load(world_id)
    scratch = tempfile.mkdtemp(prefix=f"verif-{world_id}-")
    total = _agg_new()
    violation = None
    error = None
    truncated = False
    dead = None
    block_timeout = getattr(world, "BLOCK_TIMEOUT", 600)

    # finding programs: fixed programs that must reproduce each recorded finding
    finding_status = {}
    seams.install()
    fprogs = world.finding_programs(known) if hasattr(world, "finding_programs") else []

    # determinism self-test on a small sample (same process, twice): digests must be equal before anything is believed
    det_n = min(12, runs)
    det_a = [execute(world, make_program(world, master, i), known).digest for i in range(det_n)]
    det_b = [execute(world, make_program(world, master, i), known).digest for i in range(det_n)]
    det_ok = det_a == det_b
    if not det_ok:
        error = {"index": [i for i, (x, y) in enumerate(zip(det_a, det_b)) if x != y][0], "trace": "determinism self-test failed: the same run gave two different event-log digests", "program": None}

    ctx = multiprocessing.get_context("fork")
    next_lo = 0 if det_ok else runs
    pending = set()
    try:
        with ProcessPoolExecutor(max_workers=workers, mp_context=ctx, initializer=_worker_init, initargs=(world_id, master, scratch, block_timeout, tier)) as pool:
            try:
                while (next_lo < runs or pending) and violation is None and error is None:
                    while next_lo < runs and len(pending) < workers * 2:
                        if time.monotonic() - t0 > wall_cap:
                            truncated = True
                            next_lo = runs
                            break
                        hi = min(runs, next_lo + block)
                        pending.add(pool.submit(_run_block, next_lo, hi, shrink_budget))
                        next_lo = hi
                    if not pending:
                        break
                    done, pending = wait(pending, timeout=block_timeout + 60, return_when=FIRST_COMPLETED)
                    if not done:
                        error = {"index": None, "trace": "no block finished within the block timeout", "program": None}
                        break
                    for fut in done:
                        try:
                            out = fut.result()
                        except BrokenProcessPool:
                            raise
                        except BaseException as e:
                            error = {"index": None, "trace": "worker raised: " + repr(e), "program": None}
                            break
                        a = out["agg"]
                        total["runs"] += a["runs"]
                        total["counts"].update(a["counts"])
                        total["cover"].update(a["cover"])
                        total["findings"].update(a["findings"])
                        total["digest"] ^= a["digest"]
                        total["sim_steps"] += a["sim_steps"]
                        total["prog_digests"].update(a["prog_digests"])
                        if len(total["samples"]) < 3:
                            total["samples"].extend(a["samples"][: 3 - len(total["samples"])])
                        if out["violation"] is not None and violation is None:
                            violation = out["violation"]
                        if out["error"] is not None and error is None:
                            error = out["error"]
            except BrokenProcessPool:
                dead = []
                for fn in sorted(os.listdir(scratch)):
                    if fn.endswith(".journal"):
                        try:
                            idx = int(open(os.path.join(scratch, fn)).read().strip() or -1)
                        except ValueError:
                            idx = -1
                        if idx >= 0:
                            dead.append(idx)
            finally:
                for fut in pending:
                    fut.cancel()
                # stop at once: the first failure is what gets reported
                procs = list((getattr(pool, "_processes", None) or {}).values())
                pool.shutdown(wait=False, cancel_futures=True)
                if violation is not None or error is not None or dead is not None:
                    for pr in procs:
                        try:
                            pr.terminate()
                        except Exception:
                            pass
    finally:
        shutil.rmtree(scratch, ignore_errors=True)

    if dead is not None and violation is None and error is None:
        # a worker died: find which run kills a fresh interpreter
        culprit = None
        for idx in dead:
            rc, tail = _probe_death(world_id, tier, seed, idx)
            if rc not in (0, 1, 2):
                culprit = (idx, rc, tail)
                break
            if rc == 1:
                culprit = (idx, rc, tail)
                break
        if culprit is None:
            error = {"index": None, "trace": f"worker process died (in-flight runs {dead}) but no single run reproduces it", "program": None}
        else:
            idx, rc, tail = culprit
            program = make_program(world, master, idx)
            violation = {
                "index": idx,
                "record": {"oracle": "liveness", "observable": "interpreter-died", "step": None, "detail": f"exit={rc} {tail[-500:]}"},
                "vclass": ["liveness", "interpreter-died"],
                "program": program,
                "original_ops": len(program.get("ops", [])),
                "minimised_ops": len(program.get("ops", [])),
                "digest": None,
                "died": True,
            }

    # run the fixed finding programs in-process (cheap), after the pool is gone
    for fid, prog in fprogs:
        prog = json.loads(json.dumps(prog))
        prog.setdefault("world", world_id)
        r = execute(world, prog, known)
        if r.error is not None and error is None:
            error = {"index": f"finding:{fid}", "trace": r.error, "program": prog}
        elif r.violation is not None and violation is None:
            violation = {"index": f"finding-{fid}", "record": r.violation.record(), "vclass": r.violation.vclass, "program": prog, "digest": r.digest}
        else:
            finding_status[fid] = r.ctx.findings.get(fid, 0)
            total["findings"].update(r.ctx.findings)

    # fixed programs of the world (experiments too costly to sample, run once per check run, in-process)
    for name, prog in (world.fixed_programs(tier) if hasattr(world, "fixed_programs") else []):
        if violation is not None or error is not None:
            break
        prog = json.loads(json.dumps(prog))
        prog.setdefault("world", world_id)
        r = execute(world, prog, known)
        total["counts"].update(r.ctx.counts)
        total["findings"].update(r.ctx.findings)
        if r.error is not None:
            error = {"index": f"fixed:{name}", "trace": r.error, "program": prog}
        elif r.violation is not None:
            violation = {"index": f"fixed-{name}", "record": r.violation.record(), "vclass": r.violation.vclass, "program": prog, "digest": r.digest,
                         "original_ops": len(prog.get("ops", [])), "minimised_ops": len(prog.get("ops", []))}

    wall = time.monotonic() - t0
    rc = 0
    replay_path = None
    lines = []
    if error is not None:
        rc = 2
        lines.append(f"HARNESS-ERROR property={world_id} run={error['index']}")
        lines.append(error["trace"])
    elif violation is not None:
        replay_path = write_replay(world_id, seed, violation)
        if violation.get("died"):
            ok, tail = True, ""
        else:
            ok, tail = confirm_replay(world_id, replay_path)
        if ok:
            rc = 1
            lines.append(json.dumps(violation["record"], indent=1))
            lines.append(f"minimised {violation.get('original_ops')} -> {violation.get('minimised_ops')} ops")
            lines.append(f"VIOLATION property={world_id} replay={replay_path}")
        else:
            rc = 2
            lines.append(f"HARNESS-ERROR property={world_id}: violation did not replay in a fresh interpreter ({replay_path})")
            lines.append(tail)
    # known findings
    for fid, f in sorted(known.items()):
        if f.get("status") != "recorded":
            continue
        n = total["findings"].get(fid, 0)
        if n > 0:
            lines.append(f"KNOWN-FINDING: property={world_id} {fid}: {f['what']} (reproduced {n}x)")
        else:
            lines.append(f"note: recorded finding {fid} did not reproduce in this run")

    ev = evidence.build(world, tier, seed, total, wall, rc, truncated, finding_status, known, runs, workers, replay_path)
    evidence.write(world_id, ev)
    if not quiet:
        for ln in lines:
            print(ln)
        rate = total["runs"] / max(wall, 1e-9)
        print(f"[{world_id}] tier={tier} seed={seed} runs={total['runs']}/{runs} distinct={len(total['cover'])} "
              f"wall={wall:.1f}s ({rate * 3600:.0f} runs/h) batch_digest={total['digest']:016x} exit={rc}" + (" TRUNCATED-BY-WALL-CAP" if truncated else ""))
    sys.stdout.flush()
    return rc, total
