"""Base class for worlds: one per claimed property."""


class World:
    ID = "C00"
    TIER = "quick"  # set by the runner / cli: worlds may widen their swarm in the thorough tier
    LEVEL = "exploration"
    RUNS = {"quick": 1000, "thorough": 100000}
    WALL = {"quick": 90.0, "thorough": 1500.0}
    DEFAULT_SEED = {"quick": 20261004, "thorough": 20261005}
    BLOCK = 200
    BLOCK_TIMEOUT = 600
    RULE = ""
    SIM_UNIT = "ops executed"
    COMPONENTS = {"real": [], "simulated": []}
    ASSUMPTIONS = []
    LEVEL_TEXT = ""
    LEVEL_NOTE = ""
    TECHNIQUE = "deterministic simulation with fault injection: seeded search over operation/fault histories against an executable reference model, with minimised replay files"

    def swarm(self, rng):
        return {}

    def generate(self, rng, config):
        raise NotImplementedError

    def execute(self, program, ctx):
        raise NotImplementedError

    def simplify_op(self, op):
        return []

    def simplify_program(self, program):
        return []

    def finding_programs(self, known):
        return []


def swarm_weights(rng, kinds, keep_p=0.7, always=()):
    """Swarm testing: each run enables a random subset of op kinds with random weights."""
    w = {}
    for k in kinds:
        if k in always or rng.random() < keep_p:
            w[k] = round(rng.choice([0.3, 1.0, 1.0, 3.0]), 2)
    if not w:
        k = rng.choice(list(kinds))
        w[k] = 1.0
    return w


def pick(rng, weights):
    ks = sorted(weights)
    return rng.choices(ks, weights=[weights[k] for k in ks])[0]
