"""Evidence files: written by the check itself on every run, measured values only."""
import json
import os

VERIF = os.path.dirname(os.path.dirname(os.path.dirname(os.path.abspath(__file__))))


def _group(counts, prefix):
    return {k[len(prefix):]: v for k, v in sorted(counts.items()) if k.startswith(prefix)}


def build(world, tier, seed, total, wall, rc, truncated, finding_status, known, runs_requested, workers, replay_path):
    counts = total["counts"]
    runs = total["runs"]
    cover = total["cover"]
    samples = total["samples"][:2] or [{"note": "no run completed"}]
    cov = {
        "evaluations": int(runs),
        "distinct_nontrivial": int(len(cover)),
        "rule": world.RULE,
        "samples": samples,
        "distinct_programs": int(len(total["prog_digests"])),
        "runs_requested": int(runs_requested),
        "truncated_by_wall_cap": bool(truncated),
        "runs_per_hour": round(runs / max(wall, 1e-9) * 3600),
        "seeds_per_hour": round(runs / max(wall, 1e-9) * 3600),
        "simulated_time": {"unit": world.SIM_UNIT, "total": int(total["sim_steps"])},
        "ops_by_kind": _group(counts, "op:"),
        "faults_fired_by_kind": _group(counts, "fault:"),
        "exceptions_by_class": _group(counts, "exc:"),
        "probes": _group(counts, "probe:"),
        "skipped": _group(counts, "skip:"),
        "checks_by_observable": _group(counts, "check:"),
        "other_counters": {k: v for k, v in sorted(counts.items()) if ":" not in k},
        "outcomes": _group(counts, "outcome:"),
        "routes": _group(counts, "route:"),
        "derives": _group(counts, "derive:"),
        "components": world.COMPONENTS,
        "known_findings_reproduced": {k: int(v) for k, v in sorted(total["findings"].items())},
        "finding_programs": {k: int(v) for k, v in sorted(finding_status.items())},
        "batch_digest": f"{total['digest']:016x}",
        "workers": workers,
        "replay": replay_path,
    }
    ev = {
        "property_id": world.ID,
        "tier": tier,
        "seed": int(seed),
        "level": world.LEVEL,
        "coverage": cov,
        "assumptions": world.ASSUMPTIONS,
        "wall_s": round(wall, 2),
        "violations": 1 if rc == 1 else 0,
    }
    if rc == 2:
        ev["coverage"]["harness_error"] = True
    return ev


def write(world_id, ev):
    # (experiments against a deliberately broken tree - tools/try_seeded.py - redirect their evidence so that the committed
    #  files always describe the tree as it is)
    d = os.environ.get("VERIF_EVIDENCE_DIR") or os.path.join(VERIF, "evidence")
    os.makedirs(d, exist_ok=True)
    tmp = os.path.join(d, f".{world_id}.json.tmp")
    with open(tmp, "w") as f:
        json.dump(ev, f, indent=1, sort_keys=True, default=str)
    os.replace(tmp, os.path.join(d, f"{world_id}.json"))
