"""
C04 - homogeneous transforms act covariantly on every geometry (narrowed, see DESIGN).

Simulation-specific parts: the re-winding decision draws random triangles from the global RNG (owned
seam: the same program is executed under three library seeds and must give identical arrays), the
"normals already computed" cache pre-state is history, and the laws M then inverse(M) / A then B = B.A
are statements about sequences. Oracle: an independent ten-line homogeneous model.
"""
import numpy as np

from ..core.engine import Inapplicable, seed_lib_rng
from ..core.world import World, pick, swarm_weights
from ..worlds import matrices as mx
from ..worlds import meshes
from .c01 import same
from .c10 import is_closed, tri_area, tri_volume
from .c17 import build as build17

KINDS = ["mesh", "mesh", "mesh", "points", "path2d", "path3d", "primitive", "scene", "voxel"]
CLASSES = mx.CLASSES_3D + ["tiny_below", "tiny_above", "rot_below", "rot_above", "ppm_scale"]
OPS = ["apply_transform", "apply_scale", "apply_translation", "inverse_pair", "compose_pair", "bad_shape", "read", "inplace_edit", "convert_unitless", "apply_obb", "voxel_query"]
PREREADS = ["face_normals", "vertex_normals", "mass", "edges", "face_adjacency", "bounds", "area", "triangles", "paths", "discrete", "polygons", "length",
            "face_angles", "vertex_defects", "extents", "centroid", "scale", "area_faces", "edges_unique_length", "face_adjacency_angles", "bounding_box", "polygons_closed", "polygons_full", "convex_hull", "kdtree", "identifier"]
# derived values that must equal those of an object freshly built from the transformed arrays (whatever was memoised before the call)
DERIVED = {
    "mesh": [("bounds", 1e-9), ("extents", 1e-9), ("centroid", 1e-9), ("area_faces", 1e-9), ("face_angles", 1e-6), ("vertex_defects", 1e-6), ("edges_unique_length", 1e-9), ("face_adjacency_angles", 1e-6)],
    "path2d": [("bounds", 1e-9), ("extents", 1e-9), ("length", 1e-9), ("area", 1e-9), ("polygon_boxes", 1e-9)],
    "path3d": [("bounds", 1e-9), ("extents", 1e-9), ("length", 1e-9)],
    "points": [("bounds", 1e-9), ("extents", 1e-9), ("centroid", 1e-9)],
}


def band_matrix(rng, cls):
    """Near-identity matrices either side of the identity shortcuts (1e-8 on the whole matrix, 1e-6 on the rotation part)."""
    M = np.eye(4)
    if cls == "tiny_below":
        M[:3, 3] = [3e-9, -2e-9, 1e-9]
    elif cls == "tiny_above":
        M[:3, 3] = [3e-8, -2e-8, 5e-8]
    elif cls == "ppm_scale":
        # a scale a few parts per million away from 1 and nothing else: far above the 1e-8 shortcut, within numpy's default rtol
        M[:3, :3] = np.eye(3) * (1.0 + rng.choice([2e-6, 5e-6, 8e-6]))
    elif cls == "rot_below":
        M = mx.hom(mx.rodrigues(mx.rand_unit(rng), 4e-7), mx.rand_translation(rng))
    else:
        M = mx.hom(mx.rodrigues(mx.rand_unit(rng), 6e-6), mx.rand_translation(rng))
    return M


def _index_manifold(F):
    """Every directed edge (by vertex index) occurs once and its reverse once: watertight and consistently wound."""
    F = np.asarray(F)
    if len(F) == 0:
        return False
    E = np.vstack([F[:, [0, 1]], F[:, [1, 2]], F[:, [2, 0]]])
    fwd = {(int(a), int(b)) for a, b in E}
    return len(fwd) == len(E) and all((b, a) in fwd for a, b in fwd)


def inertia_com(V, F):
    """Inertia tensor about the centre of mass of a closed triangle surface (unit density), by signed tetrahedra."""
    T = V[F]
    a, b, c = T[:, 0], T[:, 1], T[:, 2]
    vol6 = np.einsum("ij,ij->i", a, np.cross(b, c))
    vol = vol6.sum() / 6.0
    com = ((a + b + c) / 4.0 * (vol6 / 6.0)[:, None]).sum(axis=0) / vol
    a, b, c = a - com, b - com, c - com
    # second moments of a tetrahedron (origin, a, b, c): C = vol6/120 * (sum_i p_i p_i^T + (sum p)(sum p)^T) with p in {a,b,c}
    s = a + b + c
    C = np.einsum("n,nij->ij", vol6 / 120.0, np.einsum("ni,nj->nij", a, a) + np.einsum("ni,nj->nij", b, b) + np.einsum("ni,nj->nij", c, c) + np.einsum("ni,nj->nij", s, s))
    return np.trace(C) * np.eye(3) - C, com, vol


class C04(World):
    ID = "C04"
    RUNS = {"quick": 100000, "thorough": 3000000}
    WALL = {"quick": 110.0, "thorough": 1700.0}
    BLOCK = 80
    RULE = (
        "one evaluation = one object (mesh / point cloud / 2D or 3D path / primitive / scene / voxel grid) with seeded pre-reads, then 1-4 transform ops (15 matrix classes incl. both sides of the "
        "identity and rotation shortcuts, scale / translation helpers, inverse pairs, composition pairs on a twin, rejected shapes), each re-executed under 3 library RNG seeds; distinct_nontrivial "
        "counts distinct (kind/class, op, matrix class, normals-memoised?, watertight?) tuples checked against the homogeneous model"
    )
    SIM_UNIT = "transform operations executed (x3 RNG seeds)"
    LEVEL_TEXT = (
        "Seeded search over transform sequences on every geometry kind with an independent homogeneous model: points move to M.p, connectivity / colours / attributes / metadata are untouched, "
        "faces are column-reversed exactly when det < 0 (for every draw of the randomised orientation test), volume scales by |det|, centre of mass maps through M, area by s^2 and inertia by the "
        "tensor law under similarities, memoised normals equal fresh ones, M then inverse(M) restores and A then B equals B.A. Exploration over sampled matrices and objects (narrowed scope: DESIGN C04)."
    )
    LEVEL_NOTE = "Trusted: the homogeneous model (numpy), own signed-tetrahedron mass properties. Arcs are checked under similarities only; primitives under rigid + uniform scale (others must raise or satisfy the point law)."
    COMPONENTS = {
        "real": ["Trimesh/PointCloud/Path2D/Path3D/primitives/Scene/VoxelGrid apply_transform, apply_scale, apply_translation", "transformations.transform_points, flips_winding", "voxel.transforms.Transform"],
        "simulated": ["np.random (flips_winding draws random triangles): every op is replayed under 3 seeds", "the sequence of pre-reads and transforms"],
        "stubbed": [],
    }
    ASSUMPTIONS = ["attached data checked: vertex/face colours, face/vertex attributes, metadata, entity colours/layers, scene geometry arrays, voxel encoding"]

    def swarm(self, rng):
        kind = rng.choice(KINDS)
        return {"kind": kind, "weights": swarm_weights(rng, OPS, keep_p=0.7, always=("apply_transform",)), "n_ops": rng.choice([1, 1, 2, 3, 4] if self.TIER != "thorough" else [2, 3, 4, 6, 9]),
                "prereads": sorted(rng.sample(PREREADS, rng.randint(0, 5)))}

    def _recipe(self, rng, kind):
        r = {"salt": rng.randrange(2**31)}
        if kind in ("mesh", "scene"):
            r["mesh"] = meshes.random_recipe(rng, bases=["tetra", "box", "octa", "icosa", "icosa1", "prism5", "torus", "open_box", "two_boxes"], variants=["plain", "plain", "plain", "unreferenced", "dup_vertices"])
            r.update({"colors": rng.choice([None, "vertex", "face"]), "attributes": rng.random() < 0.5, "density": rng.choice([None, 2.5]), "center_mass": rng.choice([None, None, [0.1, 0.2, 0.3]])})
        if kind == "primitive":
            r.update({"prim": rng.choice(["Box", "Sphere", "Cylinder", "Capsule", "Extrusion"]), "placed": rng.random() < 0.6, "extents": [round(rng.uniform(0.5, 3), 3) for _ in range(3)], "radius": round(rng.uniform(0.4, 2.5), 3),
                      "height": round(rng.uniform(0.5, 4), 3), "sections": rng.choice([3, 5, 8, 32]), "subdivisions": rng.choice([0, 1, 2]), "hole": rng.random() < 0.5, "density": None})
        if kind == "points":
            r["colors"] = rng.random() < 0.7
        if kind == "scene":
            r["points"] = rng.random() < 0.4
        if kind == "voxel":
            r["encoding"] = rng.choice(["dense", "sparse", "rle"])
        return r

    def _gen_matrix(self, rng, kind):
        if kind == "primitive":
            cls = rng.choice(["translation", "rigid", "uniform_scale", "similarity", "mirror", "aniso", "tiny_below", "rot_above"])
        elif kind in ("path2d",):
            cls = rng.choice(["translation", "rigid", "uniform_scale", "similarity", "mirror", "tiny_below", "tiny_above"])
        elif kind == "scene":
            # (a scene graph repairs world matrices within 1e-5 of a rotation to exactly rigid - documented: no ppm scales there)
            cls = rng.choice([c for c in CLASSES if c != "ppm_scale"])
        else:
            cls = rng.choice(CLASSES)
        M = band_matrix(rng, cls) if cls in ("tiny_below", "tiny_above", "rot_below", "rot_above", "ppm_scale") else mx.make(rng, cls)
        return cls, M.tolist()

    def generate(self, rng, cfg):
        kind = cfg["kind"]
        ops = [{"op": "build", "recipe": self._recipe(rng, kind), "rs": rng.randrange(2**31)}]
        for name in cfg["prereads"]:
            ops.append({"op": "preread", "name": name, "rs": rng.randrange(2**31)})
        for _ in range(cfg["n_ops"]):
            k = pick(rng, cfg["weights"])
            op = {"op": k, "rs": rng.randrange(2**31), "theta": round(rng.uniform(0.2, 2.9), 4), "s2": rng.choice([1.0, round(mx.rand_scale(rng), 3)]), "mirror2": rng.random() < 0.25}
            op["cls"], op["matrix"] = self._gen_matrix(rng, kind)
            op["cls_b"], op["matrix_b"] = self._gen_matrix(rng, kind)
            if k == "apply_scale":
                k_ = round(mx.rand_scale(rng), 3)
                op["scale"] = rng.choice([round(mx.rand_scale(rng), 4), [round(mx.rand_scale(rng), 3) for _ in range(3)], -round(mx.rand_scale(rng), 3),
                                          [1.0, 1.0, k_], [k_, 1.0, 1.0], [1.0, -1.0, 1.0], [-1.0, k_, 1.0]])
            if k == "apply_translation":
                op["vec"] = mx.rand_translation(rng).tolist()
            if k == "bad_shape":
                op["shape"] = rng.choice([[3, 3], [4], [4, 3], [5, 5]])
            if k == "read":
                op["name"] = rng.choice(PREREADS)
            if k == "inplace_edit":
                op["i"], op["d"] = rng.randrange(10**6), round(rng.uniform(0.2, 0.6), 3)
            ops.append(op)
        return {"config": cfg, "ops": ops}

    # ------------------------------------------------------------------ state extraction
    def _state(self, kind, o):
        import trimesh

        st = {}
        if kind == "mesh":
            st.update({"P": np.array(o.vertices), "F": np.array(o.faces), "visual_kind": o.visual.kind, "meta": repr(sorted((k, repr(v)) for k, v in o.metadata.items() if k != "processed")),
                       "fa": {k: np.array(v) for k, v in o.face_attributes.items()}, "va": {k: np.array(v) for k, v in o.vertex_attributes.items()},
                       "cm_override": None if o._data.data.get("center_mass") is None else np.array(o._data.data["center_mass"], dtype=float)})
            if o.visual.kind == "vertex":
                st["colors"] = np.array(o.visual.vertex_colors)
            if o.visual.kind == "face":
                st["colors"] = np.array(o.visual.face_colors)
        elif kind == "points":
            st.update({"P": np.array(o.vertices), "colors": np.array(o.colors) if o.colors is not None and len(o.colors) else None, "meta": repr(sorted(o.metadata))})
        elif kind in ("path2d", "path3d"):
            st.update({"P": np.array(o.vertices), "entities": [(type(e).__name__, np.array(e.points).tolist(), bool(e.closed), repr(e.color), e.layer) for e in o.entities], "meta": repr(sorted(o.metadata))})
        elif kind == "primitive":
            st.update({"P": np.array(o.vertices), "F": np.array(o.faces), "T": np.array(o.primitive.transform), "params": {k: np.array(getattr(o.primitive, k)) for k in ("radius", "height", "extents") if hasattr(o.primitive, k)}, "cls": type(o).__name__})
        elif kind == "scene":
            st["world"] = {n: np.array(o.graph[n][0]) for n in o.graph.nodes_geometry}
            st["edge_meta"] = sorted((str(a), str(b), repr(attr.get("metadata")), str(attr.get("geometry"))) for a, b, attr in o.graph.to_edgelist())
            st["geom"] = {k: (np.array(g.vertices).tobytes(), np.array(getattr(g, "faces", [])).tobytes()) for k, g in o.geometry.items()}
            st["P"] = np.vstack([mx.apply(o.graph[n][0], np.asarray(o.geometry[o.graph[n][1]].vertices)) for n in sorted(o.graph.nodes_geometry)])
        elif kind == "voxel":
            st.update({"T": np.array(o.transform), "P": np.array(o.points), "dense": np.array(o.encoding.dense), "shape": list(o.shape)})
            idx = np.asarray(o.sparse_indices)
            if len(idx):
                lo, hi = idx.min(axis=0) - 0.5, idx.max(axis=0) + 0.5
                box = np.array([[x, y, z] for x in (lo[0], hi[0]) for y in (lo[1], hi[1]) for z in (lo[2], hi[2])], dtype=float)
                # the eight corners of the box of filled cells, where the grid's transform puts them (own arithmetic)
                st["corners"] = mx.apply(np.array(o.transform), box)
                st["bounds"] = np.array(o.bounds)
                # where the grid says its own cell centres are: in their own cells, all filled
                st["own_cells"] = np.array(o.points_to_indices(np.array(o.points)))
                st["own_filled"] = bool(np.all(o.is_filled(np.array(o.points))))
                st["cells"] = idx.copy()
        return st

    def _matrix_for(self, kind, op, key="matrix"):
        M = np.array(op[key], dtype=float)
        if kind == "path2d":
            th, sc = op["theta"], op["s2"]
            cls = op["cls" if key == "matrix" else "cls_b"]
            if cls in ("tiny_below", "tiny_above"):
                M2 = np.eye(3)
                M2[:2, 2] = M[:2, 3]
                return M2
            R = np.array([[np.cos(th), -np.sin(th)], [np.sin(th), np.cos(th)]])
            if cls == "translation":
                R, sc = np.eye(2), 1.0
            if cls == "rigid":
                sc = 1.0
            if cls == "mirror" or op.get("mirror2") and cls == "similarity":
                R = R @ np.diag([1.0, -1.0])
            M2 = np.eye(3)
            M2[:2, :2] = sc * R
            M2[:2, 2] = M[:2, 3]
            return M2
        return M

    @staticmethod
    def _apply_model(M, P):
        return mx.apply(M, P)

    # ------------------------------------------------------------------ execution
    def execute(self, program, ctx):
        cfg = program["config"]
        kind = cfg["kind"]
        objs = None  # three replicas under different library seeds
        recipe = None
        self._loose_normals = False
        self._ntol = 1e-9
        self._slack = 0.0
        bkind = kind
        for step, op in enumerate(program["ops"]):
            ctx.step = step
            k = op["op"]
            try:
                if k == "build":
                    recipe = op["recipe"]
                    objs = [build17(bkind, recipe) for _ in range(3)]
                elif objs is None:
                    raise Inapplicable()
                elif k in ("preread", "read"):
                    for o in objs[:1] if k == "read" else objs:
                        try:
                            getattr(o, op["name"])
                        except AttributeError:
                            pass
                        except (KeyboardInterrupt, SystemExit, MemoryError):
                            raise
                        except BaseException as e:
                            ctx.count("exc:" + type(e).__name__)
                    ctx.count("op:" + k)
                elif k == "inplace_edit":
                    # the caller moves one vertex in place and reads nothing: the state the next transform finds the object in
                    if kind not in ("mesh", "points", "path2d", "path3d"):
                        raise Inapplicable()
                    for o in objs:
                        if not len(o.vertices):
                            raise Inapplicable()
                        o.vertices[int(op["i"]) % len(o.vertices)] += float(op["d"])
                    ctx.count("op:" + k)
                elif k == "voxel_query":
                    # a question that needs the inverse of the grid's transform (memoised from here on)
                    if kind != "voxel":
                        raise Inapplicable()
                    for o in objs:
                        if len(o.points):
                            o.is_filled(np.array(o.points[:2]))
                    ctx.count("op:" + k)
                elif k == "apply_obb":
                    # the object moves itself into the frame of its oriented box and says by which matrix: that matrix moved every point
                    if kind not in ("mesh", "path2d") or not len(objs[0].vertices):
                        raise Inapplicable()
                    o = objs[0]
                    prev = self._state(kind, o)
                    try:
                        Mo = np.asarray(o.apply_obb(), dtype=float)
                    except (KeyboardInterrupt, SystemExit, MemoryError):
                        raise
                    except BaseException as e:
                        ctx.count("exc:" + type(e).__name__)
                        raise Inapplicable()
                    after = self._state(kind, o)
                    ctx.count("check:apply_obb")
                    d_ = Mo.shape[0] - 1
                    want = (Mo[:d_, :d_] @ np.asarray(prev["P"])[:, :d_].T).T + Mo[:d_, d_]
                    sc_ = 1.0 + float(np.abs(want).max()) if want.size else 1.0
                    if np.asarray(after["P"]).shape != want.shape or np.abs(np.asarray(after["P"])[:, :d_] - want).max() > 1e-9 * sc_:
                        ctx.fail("model", kind + "-apply_obb", "the matrix apply_obb() returned is not the matrix that moved the points")
                    # the replicas follow (their own oriented boxes are the same boxes)
                    for oo in objs[1:]:
                        try:
                            oo.apply_transform(Mo)
                        except (KeyboardInterrupt, SystemExit, MemoryError):
                            raise
                        except BaseException:
                            pass
                    ctx.count("op:" + k)
                elif k == "convert_unitless":
                    # an object that does not know its units is asked to convert them (no guessing requested): it must refuse,
                    # and stay where it is - a silent rescale by a guessed factor is a transform nobody applied
                    if kind not in ("mesh", "path2d", "path3d") or getattr(objs[0], "units", None) is not None:
                        raise Inapplicable()
                    o = objs[0]
                    prev = self._state(kind, o)
                    try:
                        o.convert_units("mm")
                        out = "accepted"
                    except (KeyboardInterrupt, SystemExit, MemoryError):
                        raise
                    except BaseException as e:
                        out = type(e).__name__
                        ctx.count("exc:" + out)
                    ctx.count("fault:convert-without-units")
                    after = self._state(kind, o)
                    if same(after.get("P"), prev.get("P"), 1e-12, "points"):
                        ctx.fail("rejected", kind + "-convert_units", f"convert_units('mm') on an object without units ({out}) moved its points")
                    for oo in objs[1:]:
                        try:
                            oo.convert_units("mm")
                        except (KeyboardInterrupt, SystemExit, MemoryError):
                            raise
                        except BaseException:
                            pass
                    ctx.count("op:" + k)
                else:
                    self._transform_op(kind, objs, op, recipe, ctx)
                    ctx.count("op:" + k)
                    ctx.steps_sim += 1
            except Inapplicable:
                ctx.count("skip:inapplicable")

    def _call(self, kind, o, k, op, M):
        if k == "apply_scale":
            o.apply_scale(op["scale"])
        elif k == "apply_translation":
            o.apply_translation(op["vec"][: (2 if kind == "path2d" else 3)])
        elif k == "bad_shape":
            o.apply_transform(np.ones(op["shape"]))
        else:
            o.apply_transform(M)

    def _effective(self, kind, k, op, M):
        """The matrix the model applies for this call."""
        d = 3 if kind == "path2d" else 4
        if k == "apply_scale":
            s = op["scale"]
            E = np.eye(d)
            if np.isscalar(s):
                E[: d - 1, : d - 1] *= s
            else:
                E[: d - 1, : d - 1] = np.diag(s[: d - 1])
            return E
        if k == "apply_translation":
            E = np.eye(d)
            E[: d - 1, d - 1] = op["vec"][: d - 1]
            return E
        return M

    def _transform_op(self, kind, objs, op, recipe, ctx):
        k = op["op"]
        if k == "bad_shape" and list(op["shape"]) == ([3, 3] if kind == "path2d" else [4, 4]):
            raise Inapplicable()
        M = self._matrix_for(kind, op)
        cls = op["cls"] if k in ("apply_transform", "inverse_pair", "compose_pair") else k
        before = [self._state(kind, o) for o in objs]
        memo_normals = kind == "mesh" and "face_normals" in objs[0]._cache.cache
        closed = kind == "mesh" and is_closed(before[0]["P"], before[0]["F"]) and _index_manifold(before[0]["F"])
        ctx.reach(kind + (":" + recipe.get("prim", "") if kind == "primitive" else ""), k, cls, memo_normals, closed)
        seq = [(k, M)]
        if k == "inverse_pair":
            seq = [("apply_transform", M), ("apply_transform", np.linalg.inv(M))]
        if k == "compose_pair":
            B = self._matrix_for(kind, op, "matrix_b")
            seq = [("apply_transform", M), ("apply_transform", B)]
        if kind in ("primitive",) and k == "apply_scale" and not np.isscalar(op["scale"]):
            seq = [("apply_scale", M)]
        total = np.eye(3 if kind == "path2d" else 4)
        for (kk, MM) in seq:
            E = self._effective(kind, kk, op, MM)
            if float(np.abs(E - np.eye(E.shape[0])).max()) <= 1e-8:
                # the whole-matrix identity shortcut: the library legitimately moves nothing
                self._slack = getattr(self, "_slack", 0.0) + 4e-8
            ldev = float(np.abs(E[:-1, :-1] - np.eye(E.shape[0] - 1)).max())
            if self._loose_normals and ldev > 1e-6:
                # an error already present in memoised normals is amplified by a later anisotropic matrix
                self._ntol = min(1.0, self._ntol * float(np.linalg.cond(E[:-1, :-1])) ** 2)
            if 0.0 < ldev <= 1e-6:
                self._ntol = max(self._ntol, 3e-6)
                # inside the documented "no rotation" shortcut memoised normals are deliberately not rotated: error <= |R - I|
                self._loose_normals = True
            outcomes = []
            prev = self._state(kind, objs[0])
            for i, o in enumerate(objs):
                seed_lib_rng(int(op["rs"]) + 7919 * i)  # three different draws of the library RNG
                try:
                    self._call(kind, o, kk, op, MM)
                    outcomes.append("ok")
                except (KeyboardInterrupt, SystemExit, MemoryError):
                    raise
                except BaseException as e:
                    outcomes.append(type(e).__name__)
            if len(set(outcomes)) != 1:
                ctx.fail("rng-independence", "outcome", f"{kind} {kk}:{cls}: outcomes differ across library seeds {outcomes}")
            if outcomes[0] != "ok":
                ctx.count("exc:" + outcomes[0])
                ctx.count("fault:rejected-" + kk)
                # rejected: the object must be exactly as it was before this call
                after = self._state(kind, objs[0])
                bad = same(after.get("P"), prev.get("P"), 1e-12, "points-after-rejected-op") or same(after.get("params", {}), prev.get("params", {}), 1e-12, "parameters-after-rejected-op")
                if bad:
                    ctx.fail("rejected", kind + "-" + kk, f"{cls} raised {outcomes[0]} but changed the object: {bad}")
                return
            total = E @ total
        if kind == "points" and len(objs[2].vertices) >= 5:
            # what the cloud answers FIRST after the call, before anything else touches its arrays: hull, tree, hash
            import trimesh

            o2 = objs[2]
            try:
                first_reads = (float(o2.convex_hull.volume), np.array(o2.kdtree.query(np.array([[0.1, 0.2, 0.3], [-1.0, 1.0, 0.5]]))[0]), o2.__hash__())
            except (KeyboardInterrupt, SystemExit, MemoryError):
                raise
            except BaseException as e:
                ctx.fail("model", "points-first-read-raises", f"{type(e).__name__}: {e}")
            f2 = trimesh.PointCloud(np.array(o2.vertices).tolist())
            want_reads = (float(f2.convex_hull.volume), np.array(f2.kdtree.query(np.array([[0.1, 0.2, 0.3], [-1.0, 1.0, 0.5]]))[0]), f2.__hash__())
            ctx.count("check:points-first-reads")
            if same(first_reads[0], want_reads[0], 1e-9 * max(1.0, abs(want_reads[0])), "hull") or same(first_reads[1], want_reads[1], 1e-9, "kdtree") or first_reads[2] != want_reads[2]:
                ctx.fail("model", "points-derived-first-read", f"{kind} {k}:{cls}: hull volume / nearest distances / hash read first after the call {first_reads} differ from a fresh cloud {want_reads}")
        after = [self._state(kind, o) for o in objs]
        # (i) identical arrays for every draw of the library RNG
        for i in (1, 2):
            bad = same(after[i].get("P"), after[0].get("P"), 0.0, "points") or ("F" in after[0] and same(after[i]["F"], after[0]["F"], 0, "faces"))
            if bad:
                ctx.fail("rng-independence", kind + "-" + k, f"{cls}: result depends on the library RNG seed: {bad}")
        self._check(kind, objs[0], before[0], after[0], total, k, cls, op, ctx, closed)
        ctx.event(kind, k, cls, after[0].get("P"))

    def _check(self, kind, o, b, a, M, k, cls, op, ctx, closed):
        d = M.shape[0] - 1
        lin = M[:d, :d]
        det = float(np.linalg.det(lin))
        label = f"{kind} {k}:{cls}"
        P0 = b["P"]
        scale = max(1.0, float(np.abs(P0).max()) if P0.size else 1.0, float(np.abs(M).max()))
        # tolerance: exact model, except inside the identity shortcut where the library legitimately does nothing
        dev = float(np.abs(M - np.eye(d + 1)).max())
        tol = (1e-9 if dev > 1e-8 else 2e-8) + self._slack
        if k in ("inverse_pair",):
            tol = 1e-9 * max(1.0, float(np.linalg.cond(np.array(op["matrix"])[:3, :3])) ** 2) + self._slack + 2e-8
        want = self._apply_model(M, P0) if kind != "primitive" else None

        def fail(obs, detail):
            ctx.fail("model", kind + "-" + obs, f"{label}: {detail}")

        if kind == "primitive":
            return self._check_primitive(o, b, a, M, label, ctx)
        bad = same(a["P"], want, tol * scale, "points")
        ctx.count("check:points")
        if bad:
            fail("points", bad)
        if kind == "mesh":
            flipped = det < 0 and float(np.abs(lin - np.eye(3)).max()) > 1e-6
            wantF = b["F"][:, ::-1] if flipped else b["F"]
            if same(a["F"], wantF, 0, "faces"):
                fail("faces", f"det={det:.3g}: faces are not {'column-reversed' if flipped else 'unchanged'}")
            for key in ("colors", "fa", "va", "meta", "visual_kind"):
                if key in b and same(a.get(key), b[key], 0, key) if not isinstance(b.get(key), str) else a.get(key) != b.get(key):
                    fail("attached-" + key, "changed by the transform")
            if b.get("cm_override") is not None:
                # an assigned centre of mass is a point of the body: it maps through M like every other point
                wantc = mx.apply(M, b["cm_override"][None])[0]
                if a.get("cm_override") is None or same(a["cm_override"], wantc, (1e-9 + tol) * scale, "center_mass override"):
                    fail("center_mass-override", f"assigned centre of mass {a.get('cm_override')} != M.c {wantc}")
            V, F = a["P"], a["F"]
            if len(F) and abs(det) > 1e-6:
                T0, T1 = b["P"][b["F"]], V[F]
                if closed and k != "inverse_pair":
                    v0, v1 = tri_volume(T0), tri_volume(T1)
                    if same(v1, abs(det) * v0, 1e-9 * max(1, abs(det)), "volume"):
                        fail("volume", f"volume {v1} != |det| * {v0}")
                    if same(float(o.volume), v1, 1e-9, "volume-reported"):
                        fail("volume", f"reported volume {o.volume} != {v1}")
                    if v0 > 1e-9:
                        I0, c0, _ = inertia_com(b["P"], b["F"])
                        if "center_mass" not in o._data:
                            if same(np.asarray(o.center_mass), mx.apply(M, c0[None])[0], (1e-9 + tol) * scale, "center_mass"):
                                fail("center_mass", f"{np.asarray(o.center_mass)} != M.c0 {mx.apply(M, c0[None])[0]}")
                        s = mx.similarity_factor(M)
                        if s is not None:
                            if same(float(o.area), s * s * tri_area(T0), 1e-9, "area"):
                                fail("area", f"{o.area} != s^2 * {tri_area(T0)}")
                            Q = lin / s
                            wantI = (s**5) * Q @ I0 @ Q.T * float(o.density)
                            # (with an assigned centre of mass the reported tensor is taken about that point: not the quantity modelled here)
                            if "center_mass" not in o._data and same(np.asarray(o.moment_inertia), wantI, 1e-8, "inertia"):
                                fail("inertia", "moment_inertia does not follow the tensor law")
                    if not o.is_volume and v0 > 1e-9:
                        fail("valid-solid", "a valid solid is no longer a volume after an invertible transform")
                # normals (memoised or not) equal fresh normals
                import trimesh

                fresh = trimesh.Trimesh(vertices=V.tolist(), faces=F.tolist(), process=False)
                ntol = self._ntol
                if same(np.asarray(o.face_normals), np.asarray(fresh.face_normals), ntol, "face_normals"):
                    fail("face_normals", "differ from the normals of a fresh mesh")
                if same(np.asarray(o.vertex_normals), np.asarray(fresh.vertex_normals), max(ntol, 1e-6), "vertex_normals"):
                    fail("vertex_normals", "differ from the normals of a fresh mesh")
                self._check_derived(kind, o, a, max(tol, ntol), scale, fail, ctx, fresh=fresh)
        elif kind == "points":
            if same(a["colors"], b["colors"], 0, "colors") or a["meta"] != b["meta"]:
                fail("attached", "colours or metadata changed")
            self._check_derived(kind, o, a, tol, scale, fail, ctx)
        elif kind in ("path2d", "path3d"):
            if a["entities"] != b["entities"] or a["meta"] != b["meta"]:
                fail("entities", "entities or metadata changed by the transform")
            self._check_derived(kind, o, a, tol, scale, fail, ctx)
        elif kind == "scene":
            if a["geom"] != b["geom"]:
                fail("geometry", "Scene.apply_transform modified geometry arrays")
            if a.get("edge_meta") != b.get("edge_meta"):
                fail("attached-edge-data", f"data attached to the edges changed: {a.get('edge_meta')} != {b.get('edge_meta')}")
            for n, W in b["world"].items():
                if same(a["world"][n], M @ W, tol * scale, n):
                    fail("world-transform", f"node {n}: not M . old")
        elif kind == "voxel":
            if same(a["T"], M @ b["T"], tol * scale, "transform") and dev > 1e-8:
                fail("transform", "VoxelGrid transform is not M . old")
            if same(a["dense"], b["dense"], 0, "dense") or a["shape"] != b["shape"]:
                fail("encoding", "encoding changed by the transform")
            if "own_cells" in a and (not a["own_filled"] or same(np.asarray(a["own_cells"]), np.asarray(a["cells"]), 0, "cells")):
                fail("inverse", "after the transform the grid no longer finds its own cell centres in their cells (points_to_indices / is_filled)")
            if "corners" in b and "bounds" in a:
                # the cells' box goes where M puts it: the grid's bounds are the bounds of its eight moved corners
                moved = mx.apply(M, b["corners"])
                if same(a["bounds"], np.array([moved.min(axis=0), moved.max(axis=0)]), max(tol, 1e-9) * scale, "bounds"):
                    fail("bounds", f"VoxelGrid.bounds {a['bounds'].tolist()} is not the box of the moved corners {[moved.min(axis=0).tolist(), moved.max(axis=0).tolist()]}")
                if len(a["P"]) and (a["P"].min(axis=0) < a["bounds"][0] - 1e-9 * scale).any() or (len(a["P"]) and (a["P"].max(axis=0) > a["bounds"][1] + 1e-9 * scale).any()):
                    fail("bounds", "cell centres lie outside VoxelGrid.bounds")

    def _check_derived(self, kind, o, a, tol, scale, fail, ctx, fresh=None):
        """Bounds, lengths, angles ... equal those of an object freshly built from the arrays the object now holds."""
        import copy as _copy

        import trimesh

        if fresh is None:
            if kind in ("path2d", "path3d"):
                cls = trimesh.path.Path2D if kind == "path2d" else trimesh.path.Path3D
                fresh = cls(entities=_copy.deepcopy(list(o.entities)), vertices=np.array(a["P"]), process=False)
            elif kind == "points":
                if not len(a["P"]):
                    return
                fresh = trimesh.PointCloud(np.array(a["P"]))
            else:
                return
        def read(obj, name):
            if name == "polygon_boxes":
                # where the regions are: the bounding boxes of the full polygons, in a canonical order
                boxes = np.array([pg.bounds for pg in obj.polygons_full], dtype=float).reshape(-1, 4)
                return boxes[np.lexsort(np.round(boxes, 6).T[::-1])] if len(boxes) else boxes
            return getattr(obj, name)

        # a drawing with arcs reports area, length and extent of the chords it draws its arcs with, and how many chords that is
        # follows the size of the drawing when they are drawn: chords carried through a scale and chords drawn afresh differ by
        # ~1e-5 of the value (soak #10) - staleness, by contrast, is of the order of the edit
        arcs = kind == "path2d" and any(type(e_).__name__ == "Arc" for e_ in o.entities)
        for name, t in DERIVED.get(kind, []):
            if arcs:
                t = max(t, 2e-4)
            try:
                want = read(fresh, name)
            except (KeyboardInterrupt, SystemExit, MemoryError):
                raise
            except BaseException:
                continue  # not defined for this object (open path area ...): nothing to compare
            try:
                got = read(o, name)
            except (KeyboardInterrupt, SystemExit, MemoryError):
                raise
            except BaseException as e:
                fail("derived-" + name, f"raised {type(e).__name__}: {e} while a fresh object reports it")
            ctx.count("check:derived-" + name)
            bad = same(np.asarray(got, dtype=float), np.asarray(want, dtype=float), max(t, tol) * (scale if name in ("bounds", "extents", "centroid", "length", "edges_unique_length", "polygon_boxes") else (scale * scale if name in ("area", "area_faces") else 1.0)), name)
            if bad:
                fail("derived-" + name, f"differs from a freshly built object: {bad}")

    def _check_primitive(self, o, b, a, M, label, ctx):
        """Every vertex of the regenerated mesh lies on the transformed analytic surface; parameters re-derived."""
        s = mx.similarity_factor(M)
        det = mx.det3(M)
        if s is None:
            # a primitive cannot represent it: the call raised (handled) or must satisfy the point law
            want = mx.apply(M, b["P"])
            if a["P"].shape == want.shape and not same(a["P"], want, 1e-7, "points"):
                return
            ctx.fail("model", "primitive-nonsimilar", f"{label}: accepted a matrix a primitive cannot represent and the mesh is not M.p")
        cls = a["cls"]
        ctx.count("check:primitive")
        for key, v0 in b["params"].items():
            if cls == "Extrusion" and abs(s - 1) > 1e-9:
                continue
            if same(a["params"][key], v0 * s, 1e-9, key):
                ctx.fail("model", "primitive-" + key, f"{label}: {key} {a['params'][key]} != s * {v0}")
        if cls == "Extrusion" and abs(s - 1) > 1e-9:
            return
        # surface membership in the original local frame: p_local = inv(M . T0) p  scaled back by s
        T0 = b["T"]
        Pl = mx.apply(np.linalg.inv(M @ T0), a["P"]) * 1.0
        Pl0 = mx.apply(np.linalg.inv(T0), b["P"])
        # the local point sets must match as sets up to the symmetry of the primitive: compare radial / axial invariants
        inv0 = np.sort(np.round(np.column_stack([np.linalg.norm(Pl0[:, :2], axis=1), np.abs(Pl0[:, 2])]), 7), axis=0)
        inv1 = np.sort(np.round(np.column_stack([np.linalg.norm(Pl[:, :2], axis=1), np.abs(Pl[:, 2])]), 7), axis=0)
        if cls == "Sphere":
            inv0 = np.sort(np.round(np.linalg.norm(Pl0, axis=1), 7))
            inv1 = np.sort(np.round(np.linalg.norm(Pl, axis=1), 7))
        if cls == "Box":
            inv0 = np.sort(np.round(np.abs(Pl0), 7), axis=0)
            inv1 = np.sort(np.round(np.abs(Pl), 7), axis=0)
        if same(inv1, inv0, 1e-6, "surface"):
            ctx.fail("model", "primitive-surface", f"{label}: regenerated vertices do not lie on the transformed analytic surface")
        if same(float(o.volume), (s**3) * float(tri_volume(b["P"][b["F"]])) if cls == "Box" else float(o.volume), 1e-9, "volume"):
            ctx.fail("model", "primitive-volume", f"{label}: volume")

    def simplify_op(self, op):
        out = []
        if "matrix" in op and op.get("cls") in mx.CLASSES_3D:
            for M in mx.simpler(op["cls"]):
                out.append(dict(op, matrix=M))
        if op["op"] == "build":
            r = op["recipe"]
            if r.get("mesh", {}).get("base") not in (None, "tetra"):
                out.append(dict(op, recipe=dict(r, mesh=dict(r["mesh"], base="tetra", variant="plain", offset=[0.0, 0.0, 0.0], size=1.0))))
            for key in ("colors", "attributes", "density", "placed", "hole", "points"):
                if r.get(key):
                    out.append(dict(op, recipe=dict(r, **{key: None})))
        return out


def _mut_flips_reversed():
    from trimesh import transformations as T
    import trimesh.base as B
    orig = T.flips_winding

    def fw(matrix):
        return not orig(matrix) if np.linalg.det(np.asarray(matrix)[:3, :3]) < 0 and np.random.random() < 0.3 else orig(matrix)

    T.flips_winding = fw
    B.transformations.flips_winding = fw
    return lambda: (setattr(T, "flips_winding", orig), setattr(B.transformations, "flips_winding", orig))


def _mut_identity_threshold():
    from trimesh import transformations as T
    orig = T.transform_points

    def tp(points, matrix, translate=True):
        if np.abs(np.asarray(matrix) - np.eye(len(matrix))).max() < 1e-5:
            return np.ascontiguousarray(np.asarray(points, dtype=np.float64).copy())
        return orig(points, matrix, translate)

    T.transform_points = tp
    return lambda: setattr(T, "transform_points", orig)


def _mut_voxel_wrong_side():
    from trimesh.voxel.transforms import Transform
    orig = Transform.apply_transform

    def at(self, matrix):
        self.matrix = np.matmul(self.matrix, matrix)
        return self

    Transform.apply_transform = at
    return lambda: setattr(Transform, "apply_transform", orig)


def _mut_scale_helper():
    from trimesh.parent import Geometry
    orig = Geometry.apply_scale

    def apply_scale(self, scaling):
        s = np.asanyarray(scaling, dtype=np.float64)
        if s.shape == (3,):
            s = s[[0, 1, 1]]
        return orig(self, s if s.shape == (3,) else scaling)

    Geometry.apply_scale = apply_scale
    return lambda: setattr(Geometry, "apply_scale", orig)


C04.MUTANTS = {"flips_winding-wrong-for-some-draws": _mut_flips_reversed, "identity-shortcut-threshold-1e-5": _mut_identity_threshold, "voxel-transform-right-multiplied": _mut_voxel_wrong_side, "per-axis-scale-uses-y-for-z": _mut_scale_helper}

WORLD = C04()
