"""
C08 - export then load round-trips geometry (the fault-free arm of the I/O simulation).

One run = one seeded geometry pushed through one exporter -> simulated storage -> one loader entry
point and transport, compared at the precision the format stores; then generation 2 (export the
loaded object again, load again) must equal generation 1 exactly; the exported object must be
byte-identical before and after export; exporting twice gives the same bytes-level content.
"""
import os
import shutil
import tempfile

import numpy as np

from ..core.engine import Inapplicable, seed_lib_rng
from ..core.world import World
from ..worlds import files as fw
from .c01 import same

ROUTES = {
    "mesh": ["load", "load_mesh", "load_scene"],
    "scene": ["load", "load_scene"],
    "points": ["load", "load_scene"],
    "path2d": ["load", "load_path"],
    "path3d": ["load", "load_path"],
    "voxel": ["load"],
}
TRANSPORTS = ["bytesio", "simfile", "path"]

# relative tolerance of the stored representation, by format family
def fmt_tol(fmt, digits=None):
    base = fmt.split("_", 1)[1] if fmt.startswith(("zip_", "targz_", "tarbz2_", "bz2_")) else fmt
    if base in ("obj", "obj_mtl", "off") and digits:
        # the writer was asked for `digits` decimals
        return 10.0 ** -int(digits)
    if base in fw.EXACT:
        return 0.0
    if base == "binvox":
        return 1e-12  # the header carries translate and scale as shortest-exact decimal text of the doubles
    if base in ("stl", "ply", "glb", "gltf"):
        return 2.0**-23  # float32
    if base == "3mf":
        return 1e-6
    if base in ("dae",):
        return 1e-6
    if base == "stl_ascii":
        return 1e-13  # the ASCII STL writer prints every double in full
    if base in ("obj", "obj_mtl", "off", "ply_ascii", "xyz"):
        return 1e-7
    if base in ("dxf", "svg"):
        return 1e-5
    return 1e-6


# formats whose writer stores the colours (measured on the unchanged tree: the writer emits them and the reader returns them)
CARRIES = {
    "corner_colors": {"ply", "ply_ascii", "glb", "gltf", "obj", "dict", "dict64", "zip_ply", "zip_glb", "targz_obj", "tarbz2_ply"},
    "face_colors": {"ply", "dict", "dict64", "zip_ply", "tarbz2_ply"},  # (the ascii PLY writer deliberately omits face colours)
    "colors": {"ply", "xyz", "glb"},
    "corner_uv": {"ply", "ply_ascii", "obj", "obj_mtl", "zip_obj_mtl", "glb", "gltf", "dae", "zip_ply", "targz_obj", "tarbz2_ply"},
    "face_quality": set(),
    "corner_weight": set(),
}


def snapshot(obj):
    """Byte-level snapshot of everything geometric the exporter could have touched."""
    import trimesh

    if isinstance(obj, trimesh.Scene):
        return {"edges": repr(sorted((a, b, np.round(np.array(attr.get("matrix", np.eye(4))), 12).tolist(), attr.get("geometry")) for a, b, attr in obj.graph.to_edgelist())),
                "geometry": {k: snapshot(g) for k, g in obj.geometry.items()}, "base": obj.graph.base_frame}
    s = {"type": type(obj).__name__}
    for attr in ("vertices", "faces"):
        if hasattr(obj, attr):
            s[attr] = np.asarray(getattr(obj, attr)).tobytes()
    if hasattr(obj, "entities"):
        s["entities"] = [(type(e).__name__, np.asarray(e.points).tolist(), bool(getattr(e, "closed", False))) for e in obj.entities]
    if hasattr(obj, "visual") and getattr(obj.visual, "kind", None) in ("vertex", "face"):
        s["colors"] = np.asarray(obj.visual.vertex_colors if obj.visual.kind == "vertex" else obj.visual.face_colors).tobytes()
    if hasattr(obj, "encoding"):
        s["dense"] = np.asarray(obj.encoding.dense).tobytes()
        s["transform"] = np.asarray(obj.transform).tobytes()
    if hasattr(obj, "colors") and getattr(obj, "colors", None) is not None:
        s["pc_colors"] = np.asarray(obj.colors).tobytes()
    # attached per-vertex / per-face data and texture coordinates belong to the object too
    for attr in ("vertex_attributes", "face_attributes"):
        d = getattr(obj, attr, None)
        if d is not None:
            s[attr] = sorted((str(k), np.asarray(v).tobytes()) for k, v in d.items())
    vis = getattr(obj, "visual", None)
    if vis is not None and getattr(vis, "kind", None) == "texture" and getattr(vis, "uv", None) is not None:
        s["uv"] = np.asarray(vis.uv).tobytes()
    s["metadata_keys"] = sorted(str(k) for k in getattr(obj, "metadata", {}) or {})
    return s


OPTS = {}
LOADOPTS = {}

# loader keyword arguments by format family (the empty choice dominates); what each one legitimately changes is encoded in compare_content
LOAD_CHOICES = {
    "obj": [{}, {}, {}, {"maintain_order": True}, {"group_material": False}, {"skip_materials": True}, {"process": True}],
    "glb": [{}, {}, {}, {"merge_primitives": True}, {"skip_materials": True}, {"ignore_broken": True}, {"process": True}],
    "ply": [{}, {}, {}, {"skip_materials": True}, {"fix_texture": False}, {"prefer_color": "face"}, {"prefer_color": "vertex"}, {"process": True}],
    "other": [{}, {}, {}, {"process": True}],
}


def load_family(fmt):
    base = fmt.split("_", 1)[1] if fmt.startswith(("zip_", "targz_", "tarbz2_", "bz2_")) else fmt
    if base in ("obj", "obj_mtl"):
        return "obj"
    if base in ("glb", "gltf"):
        return "glb"
    if base in ("ply", "ply_ascii"):
        return "ply"
    return "other"


def compare_content(got, want, tol_rel, ctx, oracle, fmt, exact=False):
    if got["kind"] != want["kind"]:
        ctx.fail(oracle, fmt + "-kind", f"loaded {got['kind']} for exported {want['kind']}")
    for key in want:
        if key == "kind":
            continue
        if key == "n_instances" and fmt in fw.FLATTENS:
            continue  # a flattening writer stores the placed triangles, not the instances
        if LOADOPTS.get("skip_materials") and key in ("corner_uv", "corner_colors", "face_colors", "colors"):
            continue  # the caller asked the loader not to read materials / colours
        if LOADOPTS.get("process") and key in ("corner_uv", "corner_colors", "corner_weight"):
            continue  # merging coincident vertices keeps one of their colours / uv by design (positions decide, not attributes)
        order_free = bool(LOADOPTS.get("group_material") is False or LOADOPTS.get("merge_primitives"))
        if order_free and key in ("corner_uv", "corner_colors", "face_colors", "face_quality", "corner_weight"):
            continue  # regrouping by material may reorder faces: per-face data is compared only in the default order
        if key not in got:
            if key in CARRIES and fmt not in CARRIES[key]:
                continue  # colours / uv / attributes are demanded only where the format carries them
            if key == "corner_uv" and "ply" in fmt and OPTS.get("include_attributes") is False:
                continue  # the PLY writer stores texture coordinates as vertex attributes, which the option switched off
            ctx.fail(oracle, fmt + "-" + key, "missing after load")
        a, b = got[key], want[key]
        if key in ("tris_sorted", "tris") and (key == "tris_sorted" or order_free) and np.shape(a) == np.shape(b) and len(b):
            # a multiset of placed triangles: match by nearest centroid (sorting by rounded centroids is not stable under quantisation)
            from scipy.spatial import cKDTree

            a, b = np.asarray(a, dtype=float), np.asarray(b, dtype=float)
            scale = max(1.0, float(np.abs(b).max()))
            # every expected triangle has an equal observed one and vice versa (coincident instances make exact duplicates)
            _, idx = cKDTree(a.mean(axis=1)).query(b.mean(axis=1))
            _, idx2 = cKDTree(b.mean(axis=1)).query(a.mean(axis=1))
            bad = same(a[idx], b, tol_rel * scale + 1e-12, key) or same(b[idx2], a, tol_rel * scale + 1e-12, key)
        elif key in ("corner_colors", "face_colors", "colors"):
            bad = same(np.asarray(a)[..., :3], np.asarray(b)[..., :3], 0, key)
        elif key in ("corner_uv", "face_quality", "corner_weight"):
            bad = same(a, b, 1e-6, key)
        elif isinstance(b, (list, str, int)) and not (isinstance(b, list) and len(b) and isinstance(b[0], np.ndarray)):
            bad = None if a == b else f"{key}: {a} != {b}"
        else:
            if exact:
                bad = same(a, b, 0.0, key)
            else:
                scale = max(1.0, float(np.abs(np.concatenate([np.ravel(x) for x in (b if isinstance(b, list) else [b])])).max()) if np.size(b) else 1.0)
                bad = same(a, b, tol_rel * scale + 1e-12, key)
        if bad:
            ctx.fail(oracle, fmt + "-" + key, bad)


class C08(World):
    ID = "C08"
    RUNS = {"quick": 30000, "thorough": 1200000}
    WALL = {"quick": 110.0, "thorough": 1700.0}
    BLOCK = 50
    RULE = (
        "one evaluation = one seeded geometry (mesh incl. empty/single face/far/tiny/negative coordinates and face or vertex colours, nested instanced "
        "scene, point cloud, 2D/3D path with lines and arcs, voxel grid) through one of 36 (kind, format) pipes x 3 loader entry points x 3 transports "
        "(BytesIO, named file object, path on disk) with generation-2 fixpoint; distinct_nontrivial counts distinct (kind, shape, colours, format, route, transport) tuples compared"
    )
    SIM_UNIT = "export/load pipe stages executed"
    LEVEL_TEXT = (
        "Fault-free arm of the storage simulation: seeded geometries are exported by the real exporters into simulated storage (bytes, side files through a "
        "Resolver, zip / tar.gz archives, or files in a per-run scratch directory) and loaded back through load / load_mesh / load_scene / load_path. Triangles "
        "(points, entities, cells) must come back in order at the precision the format stores, generation 2 must equal generation 1 exactly, colours must match where "
        "carried, instance placement must match, and the exported object must be byte-identical before and after export. Exports also go by file name (the writer "
        "creating the file and its side files, possibly over an older export of the same name), and the object is exported again after an in-place edit. Exploration over sampled geometries."
    )
    LEVEL_NOTE = "Trusted: numpy; per-format precision constants (float32 for binary formats, 1e-7..1e-5 relative for text formats). Third-party loaders (meshio, cascadio) are not exercised."
    COMPONENTS = {
        "real": ["all trimesh exporters and loaders for STL/PLY/OFF/OBJ/GLB/glTF/3MF/DAE/dict/dict64/XYZ/binvox/DXF/SVG", "util.decompress / compress", "resolvers", "zipfile, tarfile, lxml, pycollada, json"],
        "simulated": ["storage (name -> bytes), file objects, resolver", "clock seen by zipfile/tarfile", "uuid4", "np.random / random"],
        "stubbed": [],
    }
    ASSUMPTIONS = ["process=False on load so that loaders do not merge vertices", "colours are compared on RGB; where a format does not carry them nothing is demanded"]

    def swarm(self, rng):
        kind, fmt = rng.choice(fw.ALL_PAIRS)
        return {"kind": kind, "fmt": fmt, "route": rng.choice(ROUTES[kind]), "transport": rng.choice(TRANSPORTS), "digits": rng.choice([None, None, 6, 12]),
                "loadopts": rng.choice(LOAD_CHOICES[load_family(fmt)]) if kind in ("mesh", "scene", "points") and fmt not in ("dict", "dict64") else {},
                "opts": {"vertex_normal": rng.choice([None, True, False]), "include_attributes": rng.choice([None, True, False]), "include_normals": rng.choice([None, True, False]),
                         "include_color": rng.choice([None, True]), "merge_buffers": rng.choice([None, True]), "embed_buffers": rng.choice([None, True]), "unitize_normals": rng.choice([None, False]), "delimiter": rng.choice([None, None, ",", ";", "\t"])},
                "dict_direct": rng.random() < 0.5,
                # the other way to export: by file name, the writer creating the file and its side files itself - possibly in a
                # directory that already holds an older export under the same name; and a second export after an in-place edit
                "by_name": fmt in fw.BY_NAME and rng.random() < 0.3, "over_older": rng.random() < 0.5, "re_edit": rng.random() < 0.3}

    def generate(self, rng, cfg):
        return {"config": cfg, "ops": [{"op": "pipe", "geom": fw.random_geometry_recipe(rng, cfg["kind"]), "rs": rng.randrange(2**31)}]}

    def execute(self, program, ctx):
        cfg = program["config"]
        scratch = tempfile.mkdtemp(prefix="verif-c08-")
        try:
            for step, op in enumerate(program["ops"]):
                ctx.step = step
                seed_lib_rng(op)
                try:
                    self._pipe(op, cfg, scratch, ctx)
                except Inapplicable:
                    ctx.count("skip:inapplicable")
        finally:
            shutil.rmtree(scratch, ignore_errors=True)

    def _export(self, obj, fmt, cfg, ctx, oracle, directory=None, older=None):
        try:
            opts = dict(cfg.get("opts") or {}, digits=cfg.get("digits"))
            if cfg["kind"] != "mesh":
                # the mesh-only encoding options (normals, attributes) are not defined for other kinds
                opts = {"digits": opts.get("digits"), "delimiter": opts.get("delimiter")}
            if directory is not None:
                os.makedirs(directory, exist_ok=True)
                ctx.count("op:export-by-name" + ("-over-older" if older is not None or os.listdir(directory) else ""))
                return fw.export_by_name(obj, fmt, opts, directory, older=older)
            return fw.export_payload(obj, fmt, opts)
        except (KeyboardInterrupt, SystemExit, MemoryError):
            raise
        except BaseException as e:
            ctx.fail(oracle, fmt + "-export-raises", f"{type(e).__name__}: {e}")

    def _load(self, files, main, ft, cfg, scratch, ctx, oracle, fmt):
        kwargs = {}
        if cfg["kind"] in ("mesh", "scene", "points"):
            kwargs["process"] = False
        kwargs.update(cfg.get("loadopts") or {})
        if fmt == "xyz" and (cfg.get("opts") or {}).get("delimiter"):
            kwargs["delimiter"] = cfg["opts"]["delimiter"]
        if fmt in ("dict", "dict64") and cfg["kind"] in ("path2d", "path3d") and cfg.get("dict_direct"):
            kwargs["dict_direct"] = True
        try:
            loaded, fobj = fw.load_payload(files, main, ft, route=cfg["route"], transport=cfg["transport"], scratch=scratch, kwargs=kwargs)
        except (KeyboardInterrupt, SystemExit, MemoryError):
            raise
        except BaseException as e:
            ctx.fail(oracle, fmt + "-load-raises", f"{type(e).__name__}: {e}")
        return loaded

    def _pipe(self, op, cfg, scratch, ctx):
        kind, fmt = cfg["kind"], cfg["fmt"]
        OPTS.clear()
        OPTS.update(cfg.get("opts") or {})
        LOADOPTS.clear()
        LOADOPTS.update(cfg.get("loadopts") or {})
        r = op["geom"]
        obj = fw.build_geometry(r, cfg["fmt"])
        shape = r.get("shape", "")
        if kind == "mesh" and shape == "empty" and fmt not in ("dict", "dict64"):
            # exporters are not required to represent a mesh without faces; we only demand a clean outcome
            ctx.count("skip:empty-mesh")
            raise Inapplicable()
        if cfg["route"] == "load_mesh" and kind != "mesh":
            raise Inapplicable()
        if cfg["route"] == "load_path" and fmt not in ("dxf", "svg", "dict") and not (fmt == "ply" and kind == "path3d"):
            raise Inapplicable()
        want = fw.content(obj)
        before = snapshot(obj)
        by_name = bool(cfg.get("by_name")) and fmt in fw.BY_NAME
        d1 = os.path.join(scratch, "by_name_1") if by_name else None
        older = None
        if by_name and cfg.get("over_older") and kind != "voxel":
            # the same model, somewhere else: same counts, hence side files of the same length, other content
            older = fw.build_geometry(r, cfg["fmt"])
            dim = 2 if kind == "path2d" else 3
            Tm = np.eye(dim + 1)
            Tm[:dim, dim] = [1.5, -2.5, 0.75][:dim]
            older.apply_transform(Tm)
        files, main, ft = self._export(obj, fmt, cfg, ctx, "export", directory=d1, older=older)
        ctx.count("op:export:" + fmt)
        ctx.steps_sim += 1
        if snapshot(obj) != before:
            ctx.fail("export-pure", fmt, "exporting modified the exported object")
        # exporting twice gives the same content
        files2, _, _ = self._export(obj, fmt, cfg, ctx, "export-again", directory=os.path.join(scratch, "by_name_2") if by_name else None)
        if fmt not in ("dxf",) and sorted(files2) == sorted(files) and any(files2[k] != files[k] for k in files) and fmt not in ("3mf", "dae", "gltf", "glb", "zip_glb"):
            ctx.fail("export-deterministic", fmt, "second export of the unchanged object produced different bytes")
        loaded = self._load(files, main, ft, cfg, scratch, ctx, "gen1", fmt)
        ctx.count("op:load:" + cfg["route"] + ":" + cfg["transport"])
        ctx.steps_sim += 1
        g1 = fw.normalise_loaded(loaded, kind)
        try:
            got = fw.content(g1)
        except (KeyboardInterrupt, SystemExit, MemoryError):
            raise
        except TypeError as e:
            ctx.fail("gen1", fmt + "-type", f"loaded object {type(g1).__name__}: {e}")
        except Exception as e:
            # the loaded object cannot even be asked where its instances are (a disconnected graph ...)
            ctx.fail("gen1", fmt + "-unreadable", f"loaded {type(g1).__name__} raises when read: {type(e).__name__}: {e}")
        ctx.reach(kind, shape or r.get("colors"), r.get("colors"), fmt, cfg["route"], cfg["transport"])
        ctx.count("check:gen1")
        tol1 = fmt_tol(fmt, cfg.get("digits"))
        if LOADOPTS.get("process"):
            tol1 = max(tol1, 1e-8)  # merging vertices moves a coordinate by at most tol.merge
        compare_content(got, want, tol1, ctx, "gen1", fmt)
        # generation 2: quantisation is idempotent
        files_b, main_b, ft_b = self._export(g1, fmt, cfg, ctx, "gen2-export", directory=os.path.join(scratch, "by_name_3") if by_name else None)
        loaded2 = self._load(files_b, main_b, ft_b, cfg, scratch, ctx, "gen2", fmt)
        g2 = fw.normalise_loaded(loaded2, kind)
        ctx.count("check:gen2")
        compare_content(fw.content(g2), got, tol1 * 4, ctx, "gen2", fmt)
        if cfg.get("re_edit") and kind in ("mesh", "points", "path2d", "path3d") and len(obj.vertices):
            # the object lives on: edited in place, nothing read, exported again (by name: over its own earlier files)
            how = int(op.get("rs", 0)) % 3
            if how == 0:
                obj.vertices *= 1.25
            elif how == 1:
                obj.vertices[0] += 0.375
            else:
                obj.vertices = np.array(obj.vertices) * 0.8 + 0.125
            files_c, main_c, ft_c = self._export(obj, fmt, cfg, ctx, "export-after-edit", directory=d1)
            want_c = fw.content(obj)
            loaded_c = self._load(files_c, main_c, ft_c, cfg, scratch, ctx, "after-edit", fmt)
            ctx.count("check:after-edit")
            compare_content(fw.content(fw.normalise_loaded(loaded_c, kind)), want_c, tol1, ctx, "after-edit", fmt)
        ctx.event(kind, fmt, cfg["route"], cfg["transport"], len(files[main]))

    def simplify_program(self, program):
        out = []
        cfg = program["config"]
        if cfg["transport"] != "bytesio":
            out.append(dict(program, config=dict(cfg, transport="bytesio")))
        if cfg["route"] != "load":
            out.append(dict(program, config=dict(cfg, route="load")))
        return out

    def simplify_op(self, op):
        out = []
        g = op.get("geom", {})
        if g.get("colors"):
            out.append(dict(op, geom=dict(g, colors=None)))
        if g.get("shape") not in (None, "normal", "square"):
            out.append(dict(op, geom=dict(g, shape="normal" if g["kind"] == "mesh" else "square")))
        if g.get("kind") == "mesh" and g["mesh"].get("base") != "tetra":
            out.append(dict(op, geom=dict(g, mesh=dict(g["mesh"], base="tetra", offset=[0.0, 0.0, 0.0], size=1.0))))
        return out


def _wrap_registry(reg, key, wrap):
    orig = reg[key]
    try:
        reg[key] = wrap(orig)
    except TypeError:
        reg._dict[key] = wrap(orig)
    def undo():
        try:
            reg[key] = orig
        except TypeError:
            reg._dict[key] = orig
    return undo


def _mut_off_reversed_faces():
    from trimesh.exchange import export

    def wrap(orig):
        def f(mesh, *a, **k):
            m = mesh.copy()
            m.faces = m.faces[::-1]
            return orig(m, *a, **k)
        return f

    return _wrap_registry(export._mesh_exporters, "off", wrap)


def _mut_ply_loader_drops_last_face():
    from trimesh.exchange import load

    def wrap(orig):
        def f(*a, **k):
            kw = orig(*a, **k)
            if "faces" in kw and len(kw["faces"]) > 2:
                kw["faces"] = kw["faces"][:-1]
            return kw
        return f

    return _wrap_registry(load.mesh_loaders, "ply", wrap)


def _mut_export_scales_in_place():
    from trimesh.exchange import export

    def wrap(orig):
        def f(mesh, *a, **k):
            out = orig(mesh, *a, **k)
            if hasattr(mesh, "vertices") and len(mesh.vertices):
                mesh.vertices[0] += 1e-3
            return out
        return f

    return _wrap_registry(export._mesh_exporters, "stl", wrap)


C08.MUTANTS = {"off-export-reverses-face-order": _mut_off_reversed_faces, "ply-loader-drops-last-face": _mut_ply_loader_drops_last_face, "stl-export-moves-a-vertex-of-the-source": _mut_export_scales_in_place}

WORLD = C08()
