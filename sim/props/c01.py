"""
C01 - derived mesh values never go stale (the cache is history independent).

History machine on one real Trimesh: steps of `checked reads ; mutator`, final sweep.
 O1 coherence: every read equals the same read on a mesh freshly built from the current arrays
    (Python lists) and the same overrides.
 O2 history independence: a read-free twin executes the same mutators (with a different library RNG
    seed); arrays and overrides must agree after every mutator.
"""
import copy as pycopy

import os

import numpy as np

from ..core.engine import HarnessError, Inapplicable, seed_lib_rng
from ..core.world import World, pick, swarm_weights
from ..worlds import matrices as mx
from ..worlds import meshes

# ----------------------------------------------------------------------------- observables
ANGLE_OBS = {"face_adjacency_angles", "vertex_defects", "integral_mean_curvature", "face_angles", "face_angles_sparse"}


def _canon_listlist(x):
    return sorted(sorted(int(i) for i in row) for row in x)


def _hull(m):
    h = m.convex_hull
    return {"volume": float(h.volume), "bounds": np.asarray(h.bounds), "nfaces": len(h.faces)}


def _rays(m, q):
    loc, ir, it = m.ray.intersects_location(q["origins"], q["directions"], multiple_hits=True)
    loc = np.asarray(loc).reshape(-1, 3)
    ir, it = np.asarray(ir, dtype=np.int64), np.asarray(it, dtype=np.int64)
    order = np.lexsort((it, ir)) if len(ir) else np.zeros(0, dtype=int)
    return {"ray": ir[order], "tri": it[order], "loc": loc[order]}


def _rays_id(m, q):
    it, ir = m.ray.intersects_id(q["origins"], q["directions"], multiple_hits=True)[:2]
    ir, it = np.asarray(ir, dtype=np.int64), np.asarray(it, dtype=np.int64)
    order = np.lexsort((it, ir)) if len(ir) else np.zeros(0, dtype=int)
    return {"ray": ir[order], "tri": it[order]}


def _nearest(m, q):
    c, d, t = m.nearest.on_surface(q["points"])
    # only the distance: which of two candidate faces within tol.merge (on squared distances) is chosen is an
    # ulp-level tie-break on (transported) normals inside proximity.closest_point, not a staleness question
    return {"distance": np.asarray(d)}


def _kdtree(m, q):
    tree = m.kdtree
    d, i = tree.query(q["points"])
    # the answer names a vertex: it must be one of the current vertices at that distance (ties between coincident
    # vertices are free), and the tree must index exactly the current vertices
    V = np.asarray(m.vertices)
    named = np.linalg.norm(V[np.asarray(i)] - q["points"], axis=1) if len(V) and int(np.max(i)) < len(V) else None
    return {"d": np.asarray(d), "named": named, "n": int(tree.n)}


def _nearest_vertex(m, q):
    d, i = m.nearest.vertex(q["points"])
    V = np.asarray(m.vertices)
    return {"d": np.asarray(d), "named": np.linalg.norm(V[np.asarray(i)] - q["points"], axis=1) if len(V) and int(np.max(i)) < len(V) else None}


def _tree(m, q):
    lo, hi = q["box"]
    return sorted(int(i) for i in m.triangles_tree.intersection(np.concatenate([lo, hi])))


def _section(m, q):
    s = m.section(plane_origin=q["plane_origin"], plane_normal=q["plane_normal"])
    if s is None:
        return None
    return {"length": float(s.length), "nverts": len(s.vertices)}


def _graph_edges(g):
    return sorted(tuple(sorted((int(a), int(b)))) for a, b in g.edges())


def _facets(m):
    return _canon_listlist(m.facets)


def _outline(m):
    o = m.outline()
    return {"n": len(o.entities), "length": float(o.length) if len(o.entities) else 0.0}


OBS = {
    # name: (getter(mesh, queries), needs)
    "face_normals": lambda m, q: np.asarray(m.face_normals),
    "vertex_normals": lambda m, q: np.asarray(m.vertex_normals),
    "bounds": lambda m, q: m.bounds,
    "extents": lambda m, q: m.extents,
    "centroid": lambda m, q: m.centroid,
    "scale": lambda m, q: m.scale,
    "area": lambda m, q: m.area,
    "area_faces": lambda m, q: m.area_faces,
    "volume": lambda m, q: m.volume,
    "center_mass": lambda m, q: m.center_mass,
    "mass": lambda m, q: m.mass,
    "moment_inertia": lambda m, q: m.moment_inertia,
    "mass_properties": lambda m, q: {k: np.asarray(getattr(m.mass_properties, k)) for k in ("density", "mass", "volume", "center_mass", "inertia")},
    "principal_inertia_components": lambda m, q: m.principal_inertia_components,
    "moment_inertia_frame": lambda m, q: m.moment_inertia_frame(q["frame"]),
    "triangles": lambda m, q: np.asarray(m.triangles),
    "triangles_center": lambda m, q: m.triangles_center,
    "triangles_cross": lambda m, q: m.triangles_cross,
    "edges": lambda m, q: m.edges,
    "edges_face": lambda m, q: m.edges_face,
    "edges_unique": lambda m, q: m.edges_unique,
    "edges_unique_length": lambda m, q: m.edges_unique_length,
    "edges_unique_inverse": lambda m, q: m.edges_unique_inverse,
    "edges_sorted": lambda m, q: m.edges_sorted,
    "edges_sparse": lambda m, q: _coo(m.edges_sparse),
    "faces_sparse": lambda m, q: _coo(m.faces_sparse),
    "faces_unique_edges": lambda m, q: m.faces_unique_edges,
    "face_adjacency": lambda m, q: m.face_adjacency,
    "face_adjacency_edges": lambda m, q: m.face_adjacency_edges,
    "face_adjacency_unshared": lambda m, q: m.face_adjacency_unshared,
    "face_adjacency_angles": lambda m, q: m.face_adjacency_angles,
    "face_adjacency_projections": lambda m, q: m.face_adjacency_projections,
    "face_adjacency_convex": lambda m, q: m.face_adjacency_convex,
    "face_adjacency_radius": lambda m, q: m.face_adjacency_radius,
    "face_adjacency_span": lambda m, q: m.face_adjacency_span,
    "face_neighborhood": lambda m, q: m.face_neighborhood,
    "face_angles": lambda m, q: m.face_angles,
    "face_angles_sparse": lambda m, q: _coo(m.face_angles_sparse),
    "vertex_defects": lambda m, q: m.vertex_defects,
    "vertex_degree": lambda m, q: m.vertex_degree,
    "vertex_faces": lambda m, q: m.vertex_faces,
    "vertex_neighbors": lambda m, q: [sorted(int(i) for i in r) for r in m.vertex_neighbors],
    "vertex_adjacency_graph": lambda m, q: _graph_edges(m.vertex_adjacency_graph),
    "euler_number": lambda m, q: m.euler_number,
    "body_count": lambda m, q: m.body_count,
    "is_watertight": lambda m, q: m.is_watertight,
    "is_winding_consistent": lambda m, q: m.is_winding_consistent,
    "is_volume": lambda m, q: m.is_volume,
    "is_convex": lambda m, q: m.is_convex,
    "is_empty": lambda m, q: m.is_empty,
    "referenced_vertices": lambda m, q: m.referenced_vertices,
    "facets": lambda m, q: _facets(m),
    "facets_area": lambda m, q: np.sort(np.asarray(m.facets_area)),
    "facets_boundary": lambda m, q: sorted(_canon_listlist(b) for b in m.facets_boundary),
    "integral_mean_curvature": lambda m, q: m.integral_mean_curvature,
    "identifier": lambda m, q: m.identifier,
    "identifier_hash": lambda m, q: m.identifier_hash,
    "convex_hull": lambda m, q: _hull(m),
    "bounding_box": lambda m, q: np.asarray(m.bounding_box.bounds),
    "bounding_box_oriented": lambda m, q: float(m.bounding_box_oriented.volume),
    "bounding_sphere": lambda m, q: float(m.bounding_sphere.primitive.radius),
    "kdtree": _kdtree,
    "triangles_tree": _tree,
    "ray_location": _rays,
    "ray_id": _rays_id,
    "ray_first": lambda m, q: np.asarray(m.ray.intersects_first(q["origins"], q["directions"])),
    "ray_any": lambda m, q: np.asarray(m.ray.intersects_any(q["origins"], q["directions"])),
    "contains": lambda m, q: np.asarray(m.contains(q["points"])),
    "nearest_on_surface": _nearest,
    "signed_distance": lambda m, q: np.asarray(m.nearest.signed_distance(q["points"])),
    "nearest_vertex": _nearest_vertex,
    "section": _section,
    "outline": _outline,
    "smooth_shaded": lambda m, q: {"nv": len(m.smooth_shaded.vertices), "nf": len(m.smooth_shaded.faces)},
    "split_count": lambda m, q: len(m.split(only_watertight=False)),
    "symmetry": lambda m, q: m.symmetry,
}
OBS_NAMES = sorted(OBS)
TIE_SENSITIVE = {"ray_location", "ray_id", "ray_first", "ray_any", "contains", "signed_distance", "triangles_tree"} - {"triangles_tree"}
# cache keys behind each observable (to measure "was memoised before the mutator")
CHEAP = [n for n in OBS_NAMES if n not in ("bounding_box_oriented", "bounding_sphere", "smooth_shaded", "section", "outline", "split_count", "symmetry")]

MUTATORS = [
    "apply_transform", "apply_translation", "apply_scale", "rezero", "invert", "update_faces", "update_vertices",
    "remove_unreferenced_vertices", "merge_vertices", "unmerge_vertices", "write_nan", "remove_infinite_values",
    "unique_faces", "nondegenerate_faces", "process", "fix_normals", "fix_winding", "fix_inversion", "fill_holes",
    "convert_units", "edit_vertices", "edit_faces", "assign_vertices", "assign_faces", "density", "center_mass",
    "assign_face_normals", "assign_vertex_normals", "copy", "cache_clear", "reseed", "bad_transform", "bad_mask", "view_write",
    "subdivide_inplace_like", "remove_degenerate", "remove_duplicate", "smooth", "apply_obb", "update_vertices_inverse", "merge_then_unmerge", "there_and_back", "laplacian_operator",
]
EDIT_V_ROUTES = ["item", "row", "slice", "mask", "fancy", "iadd", "isub", "imul", "itruediv", "put", "idiom_col", "idiom_rows", "fill_row", "sort"]
EDIT_F_ROUTES = ["item", "swap_rows", "flip_row", "roll_row", "slice_assign"]


# ----------------------------------------------------------------------------- deep comparison
def same(a, b, tol, path=""):
    """None when equal within tol (abs + rel), else a description."""
    if isinstance(a, dict) and isinstance(b, dict):
        if sorted(a) != sorted(b):
            return f"{path}: keys {sorted(a)} != {sorted(b)}"
        for k in a:
            r = same(a[k], b[k], tol, f"{path}.{k}")
            if r:
                return r
        return None
    if isinstance(a, (list, tuple)) and isinstance(b, (list, tuple)):
        if len(a) != len(b):
            return f"{path}: len {len(a)} != {len(b)}"
        try:
            aa, bb = np.asarray(a), np.asarray(b)
            if aa.dtype != object and bb.dtype != object:
                return same(aa, bb, tol, path)
        except Exception:
            pass
        for i, (x, y) in enumerate(zip(a, b)):
            r = same(x, y, tol, f"{path}[{i}]")
            if r:
                return r
        return None
    if a is None or b is None or isinstance(a, (str, bytes)) or isinstance(b, (str, bytes)):
        return None if a == b and type(a) is type(b) else f"{path}: {a!r} != {b!r}"
    a, b = np.asarray(a), np.asarray(b)
    if a.shape != b.shape:
        return f"{path}: shape {a.shape} != {b.shape}"
    if a.dtype.kind in "biu" and b.dtype.kind in "biu":
        if not np.array_equal(a, b):
            bad = np.argwhere(np.atleast_1d(a != b))
            return f"{path}: {len(bad)} integer element(s) differ, first at {bad[0].tolist()}"
        return None
    if a.dtype.kind == "O" or b.dtype.kind == "O":
        return None if repr(a.tolist()) == repr(b.tolist()) else f"{path}: objects differ"
    a = a.astype(np.float64)
    b = b.astype(np.float64)
    na, nb = np.isnan(a), np.isnan(b)
    if not np.array_equal(na, nb):
        return f"{path}: NaN pattern differs"
    ia, ib = np.isinf(a), np.isinf(b)
    if not np.array_equal(ia, ib) or not np.array_equal(a[ia], b[ib]):
        return f"{path}: inf pattern differs"
    fin = ~(na | ia)
    if fin.any():
        d = np.abs(a[fin] - b[fin])
        lim = tol * (1.0 + np.abs(b[fin]))
        if (d > lim).any():
            i = int(np.argmax(d - lim))
            return f"{path}: max |diff| {float(d.max()):.3e} (value {float(b[fin][i]):.6g}) > tol"
    return None


def _coo(sp):
    """A sparse matrix as canonical (shape, row, col, value) arrays with duplicates summed: the dense form of a 20 000-face mesh
    is gigabytes (the thorough soak spent 13 minutes of kernel time allocating it)."""
    c = sp.tocoo(copy=True)  # (never touch the matrix the mesh has memoised)
    c.sum_duplicates()
    order = np.lexsort((c.col, c.row))
    return {"shape": list(c.shape), "row": np.asarray(c.row)[order].astype(np.int64), "col": np.asarray(c.col)[order].astype(np.int64), "data": np.asarray(c.data)[order].astype(np.float64)}


def observe(m, name, q, rs):
    """(kind, value): value of an observable or the class of the exception it raised."""
    seed_lib_rng(rs)
    try:
        return "value", OBS[name](m, q)
    except (KeyboardInterrupt, SystemExit, MemoryError):
        raise
    except BaseException as e:
        return "raised", type(e).__name__


# ----------------------------------------------------------------------------- the world
class C01(World):
    ID = "C01"
    RUNS = {"quick": 9000, "thorough": 500000}
    WALL = {"quick": 110.0, "thorough": 1700.0}
    BLOCK = 40
    RULE = (
        "one evaluation = one seeded history (1-6 steps of `checked reads ; mutator` + final sweep of all enabled observables) on a "
        "general-position mesh of 4-320 faces from a 12x9 pool; distinct_nontrivial counts distinct (mutator kind x argument class, observable, "
        "observable-was-memoised-before-the-mutator) triples for which a post-mutator read was compared with a freshly built mesh"
    )
    SIM_UNIT = "mutators and checked reads executed"
    LEVEL_TEXT = (
        "Seeded search over interleavings of ~75 observables (cached properties, ray/proximity/containment queries) with ~37 mutator kinds "
        "(transforms of 11 matrix classes, inversion, face/vertex masking, merging, repair, in-place edits, reassignment, overrides, copies, "
        "cache drops, rejected calls) on the real Trimesh. Every checked read is compared with a mesh freshly built from the current arrays; a "
        "read-free twin executing the same mutators must keep identical arrays (history independence). Exploration, not proof."
    )
    LEVEL_NOTE = (
        "Trusted: numpy, and trimesh's own from-scratch computation on a fresh mesh as the reference for each observable (the property is about "
        "staleness, not about the formulas). Meshes are in general position so thresholded predicates are far from their thresholds."
    )
    COMPONENTS = {
        "real": ["trimesh.Trimesh", "caching.Cache/DataStore/TrackedArray", "ray_pyembree (embreex) and ray_triangle", "proximity", "rtree", "scipy cKDTree", "repair", "grouping"],
        "simulated": ["the history (schedule of reads and mutators)", "np.random / random (reseeded before every op; twin runs under a different seed)"],
        "stubbed": [],
    }
    ASSUMPTIONS = [
        "explicit overrides are what lives in the data store (vertices, faces, density, centre of mass); normals are assigned only with true values or values the guard must refuse",
        "matrices have O(0.1..1) effects (identity shortcut bands belong to C04)",
    ]

    # ------------------------------------------------------------------ generation
    # mutators that do nothing on a clean mesh, with the mesh defects that give them work to do
    PAIRS = [("near_dup", "merge_vertices"), ("dup_vertices", "merge_vertices"), ("unmerged", "merge_vertices"), ("unmerged", "process"), ("near_dup", "process"),
             ("duplicate_face", "unique_faces"), ("duplicate_face", "remove_duplicate"), ("degenerate_face", "nondegenerate_faces"), ("degenerate_face", "remove_degenerate"),
             ("flipped_some", "fix_normals"), ("flipped_some", "fix_winding"), ("flipped_some", "fix_inversion"), ("unreferenced", "remove_unreferenced_vertices"),
             ("unreferenced", "unmerge_vertices"), ("plain", "unmerge_vertices"), ("unmerged", "merge_then_unmerge"), ("unreferenced", "update_vertices")]

    def swarm(self, rng):
        cfg = self._swarm(rng)
        if rng.random() < 0.25:
            # a focused run: one defect, the mutator that repairs it made likely, large enough to have more than a few faces
            variant, mut = rng.choice(self.PAIRS)
            cfg["mesh"]["variant"] = variant
            if rng.random() < 0.5:
                cfg["mesh"]["base"] = rng.choice(["icosa1", "torus", "prism8", "two_boxes"])
            w = cfg["weights"]
            w[mut] = 10.0 * max(w.values() or [1.0])
            cfg["focus"] = [variant, mut]
        return cfg

    def _swarm(self, rng):
        obs_pool = CHEAP if rng.random() < 0.8 else OBS_NAMES
        k = rng.choice([4, 8, 16, 30, len(obs_pool)])
        return {
            "mesh": meshes.random_recipe(rng, bases=[b for b in meshes.BASES if b != "icosa2" or rng.random() < 0.15]),
            "weights": swarm_weights(rng, MUTATORS, keep_p=0.45),
            "observables": sorted(rng.sample(obs_pool, min(k, len(obs_pool)))),
            "n_steps": rng.choice([1, 1, 2, 2, 3, 3, 4, 6] if self.TIER != "thorough" else [1, 2, 3, 4, 6, 8, 10, 12]),
            "use_embree": rng.random() < 0.5,
            "density": rng.choice([None, None, 2.5]),
            "center_mass": rng.choice([None, None, None, [0.1, 0.2, -0.3]]),
            "units": rng.choice([None, "in", "mm", "m"]),
            "final_sweep": rng.choice(["enabled", "enabled", "all_cheap"]),
        }

    def generate(self, rng, config):
        ops = []
        obs = config["observables"]
        for _ in range(config["n_steps"]):
            nreads = rng.choice([0, 1, 2, 3, 5, 8])
            for _ in range(nreads):
                ops.append({"op": "read", "obs": rng.choice(obs), "rs": rng.randrange(2**31), "q": rng.randrange(2**31)})
            # the shape staleness needs: the SAME question asked right before and right after a mutator, nothing read in between
            around = {"op": "read", "obs": rng.choice(obs), "rs": rng.randrange(2**31), "q": rng.randrange(2**31)} if rng.random() < 0.4 else None
            if around:
                ops.append(dict(around))
            ops.append(self._gen_mutator(rng, pick(rng, config["weights"])))
            if around:
                ops.append(dict(around))
        return {"config": config, "ops": ops}

    def _gen_mutator(self, rng, kind):
        op = {"op": kind, "rs": rng.randrange(2**31), "salt": rng.randrange(2**31)}
        if kind == "apply_transform":
            cls = rng.choice(mx.CLASSES_3D[1:])
            op.update({"cls": cls, "matrix": mx.make(rng, cls).tolist()})
        elif kind == "apply_translation":
            op["vec"] = mx.rand_translation(rng).tolist()
        elif kind == "apply_scale":
            c = rng.choice(["scalar", "vector", "negative"])
            op["cls"] = c
            op["scale"] = mx.rand_scale(rng) if c == "scalar" else ([mx.rand_scale(rng) for _ in range(3)] if c == "vector" else [-mx.rand_scale(rng), mx.rand_scale(rng), mx.rand_scale(rng)])
        elif kind in ("update_faces", "update_vertices"):
            c = rng.choice(["bool", "bool", "index", "index_repeat", "empty", "all"])
            op.update({"cls": c, "keep_p": rng.choice([0.5, 0.8, 0.95]), "count": rng.randint(1, 12)})
            if kind == "update_vertices":
                op["only_unreferenced"] = rng.random() < 0.5
        elif kind == "merge_vertices":
            op.update({"merge_tex": rng.choice([None, True]), "merge_norm": rng.choice([None, True, False]), "digits_vertex": rng.choice([None, None, 1, 4, 0, 1])})
        elif kind == "process":
            op.update({"validate": rng.random() < 0.6, "merge_norm": rng.choice([None, True]), "merge_tex": rng.choice([None, True])})
        elif kind in ("fix_normals", "fix_inversion"):
            op["multibody"] = rng.choice([None, True, False])
        elif kind == "convert_units":
            op["to"] = rng.choice(["mm", "in", "m", "feet"])
        elif kind == "edit_vertices":
            op.update({"route": rng.choice(EDIT_V_ROUTES), "d": round(rng.uniform(0.1, 0.6) * rng.choice([-1, 1]), 4), "i": rng.randrange(10**6), "j": rng.randrange(3), "k": rng.randint(1, 5)})
        elif kind == "view_write":
            op.update({"d": round(rng.uniform(0.1, 0.6), 4), "i": rng.randrange(10**6), "k": rng.randint(1, 5), "how": rng.choice(["iadd", "setitem", "imul"])})
        elif kind == "edit_faces":
            op.update({"route": rng.choice(EDIT_F_ROUTES), "i": rng.randrange(10**6), "j": rng.randrange(3), "k": rng.randrange(10**6)})
        elif kind == "assign_vertices":
            op.update({"cls": rng.choice(["perturb", "append", "same_values", "scaled", "tracked_prehashed", "tracked_prehashed"]), "d": 0.2})
        elif kind == "assign_faces":
            op.update({"cls": rng.choice(["permute", "subset", "flip_one", "same_values", "reverse_all", "append_dup", "tracked_prehashed"])})
        elif kind == "density":
            op["value"] = rng.choice([0.5, 3.0, 7.25])
        elif kind == "center_mass":
            op["value"] = [round(rng.uniform(-1, 1), 3) for _ in range(3)]
        elif kind == "assign_face_normals":
            op["cls"] = rng.choice(["true", "negated", "wrong_shape", "zeros", "nan"])
        elif kind == "assign_vertex_normals":
            op["cls"] = rng.choice(["true", "wrong_shape"])
        elif kind == "copy":
            op["route"] = rng.choice(["copy", "copy_cache", "copy.copy", "copy.deepcopy", "copy_novisual"])
        elif kind == "there_and_back":
            op["f"] = rng.choice([2.0, 0.5, 4.0])
            op["obs_mid"] = rng.choice(["area", "volume", "bounds", "centroid", "face_normals", "edges_unique", "is_watertight", "area_faces", "triangles"])
            op["fresh_copy_first"] = rng.random() < 0.5
        elif kind == "write_nan":
            op.update({"i": rng.randrange(10**6), "value": rng.choice(["nan", "inf"])})
        elif kind == "bad_transform":
            op["shape"] = rng.choice([[3, 3], [4], [2, 4, 4], [4, 3]])
        elif kind == "smooth":
            op["cls"] = rng.choice(["laplacian", "taubin", "humphrey"])
            op["operator"] = rng.choice([None, None, "equal", "umbrella"])
            op["pinned"] = rng.choice([0, 0, 1, 3])
        elif kind == "laplacian_operator":
            op["operator"] = rng.choice(["equal", "umbrella"])
            op["pinned"] = rng.choice([0, 1, 3])
        elif kind == "bad_mask":
            op["target"] = rng.choice(["faces", "vertices"])
            op["extra"] = rng.choice([1, 3])
        return op

    @staticmethod
    def _laplacian(m, op):
        import trimesh

        n = len(m.vertices)
        if n == 0 or len(m.faces) == 0:
            raise Inapplicable()
        r = np.random.RandomState(int(op.get("salt", 0)) % (2**32))
        # (only vertices some face refers to are pinned: with equal weights the operator is sized by the largest referenced
        # index, and pinning beyond it writes coordinates outside the matrix - scipy then corrupts the heap; not a staleness matter)
        used = np.unique(np.asarray(m.faces))
        used = used[(used >= 0) & (used < n)]
        pinned = sorted(int(i) for i in r.choice(used, min(int(op.get("pinned", 0)), len(used)), replace=False)) or None
        return trimesh.smoothing.laplacian_calculation(m, equal_weight=op.get("operator") != "umbrella", pinned_vertices=pinned)

    # ------------------------------------------------------------------ construction
    def _new(self, V, F, cfg, density, center_mass, units):
        import trimesh

        # rebuilt from Python lists: shares no buffer and no cache with the mesh under test
        Vn = np.array(np.asarray(V).tolist(), dtype=np.float64).reshape(-1, 3)
        Fn = np.array(np.asarray(F).tolist(), dtype=np.int64).reshape(-1, 3)
        m = trimesh.Trimesh(vertices=Vn, faces=Fn, process=False, use_embree=bool(cfg.get("use_embree", True)))
        if density is not None:
            m.density = density
        if center_mass is not None:
            m.center_mass = center_mass
        if units is not None:
            m.units = units
        return m

    def _fresh(self, main, st):
        # same ray engine as the mesh under test (a copy always gets the default engine)
        cfg = dict(st["cfg"], use_embree="pyembree" in type(main.ray).__module__)
        return self._new(main.vertices, main.faces, cfg, st["density"], st["center_mass"], st["units"])

    def _queries(self, fresh_arrays, salt):
        V = np.asarray(fresh_arrays, dtype=np.float64).reshape(-1, 3)
        V = V[np.isfinite(V).all(axis=1)]
        r = np.random.RandomState(salt % (2**32))
        if len(V) == 0:
            lo, hi = np.zeros(3), np.ones(3)
        else:
            lo, hi = V.min(axis=0), V.max(axis=0)
        c = (lo + hi) / 2
        ext = np.maximum(hi - lo, 1e-3)
        n = 12
        targets = c + (r.uniform(-0.45, 0.45, (n, 3)) * ext)
        dirs = r.normal(size=(n, 3))
        dirs /= np.linalg.norm(dirs, axis=1)[:, None]
        origins = targets - dirs * (2.0 * np.linalg.norm(ext))
        origins[: n // 3] = targets[: n // 3]  # some origins inside
        pts = c + r.uniform(-0.8, 0.8, (10, 3)) * ext
        blo = c + r.uniform(-0.5, 0.0, 3) * ext
        R = mx.rand_rotation(__import__("random").Random(salt))
        return {
            "origins": origins, "directions": dirs, "points": pts, "box": (blo, blo + 0.5 * ext),
            "frame": mx.hom(R, r.uniform(-1, 1, 3)), "plane_origin": c + r.uniform(-0.2, 0.2, 3) * ext, "plane_normal": dirs[0],
        }

    # ------------------------------------------------------------------ execution
    def execute(self, program, ctx):
        cfg = program["config"]
        V, F = meshes.build(cfg["mesh"])
        st = {"cfg": cfg, "density": cfg.get("density"), "center_mass": cfg.get("center_mass"), "units": cfg.get("units"), "last_mut": "init", "memo_before": set()}
        main = self._new(V, F, cfg, st["density"], st["center_mass"], st["units"])
        twin = self._new(V, F, cfg, st["density"], st["center_mass"], st["units"])
        fresh = None
        for step, op in enumerate(program["ops"]):
            ctx.step = step
            if op["op"] == "read":
                if op["obs"] not in OBS:
                    continue
                if fresh is None:
                    fresh = self._fresh(main, st)
                self._check_read(main, fresh, op["obs"], op.get("q", 0), op.get("rs", 0), st, ctx, "O1-read")
                ctx.count("op:read")
                ctx.steps_sim += 1
                continue
            try:
                main, twin = self._mutate_both(main, twin, op, st, ctx)
            except Inapplicable:
                ctx.count("skip:inapplicable")
                continue
            fresh = None
            ctx.count("op:" + op["op"])
            ctx.steps_sim += 1
        ctx.step = "final"
        fresh = self._fresh(main, st)
        names = cfg["observables"] if cfg.get("final_sweep") != "all_cheap" else CHEAP
        salt = int(program.get("seed", 0))
        for i, name in enumerate(names):
            self._check_read(main, fresh, name, salt + i, salt + 7 * i, st, ctx, "O1-final")
        # second pass: every value again, now all memoised (a read must not disturb another)
        for i, name in enumerate(names[:: max(1, len(names) // 8)]):
            self._check_read(main, fresh, name, salt + i * (max(1, len(names) // 8)), salt + 7 * i * (max(1, len(names) // 8)), st, ctx, "O1-final-reread")
        ctx.event("final", len(names))

    def _check_read(self, main, fresh, name, qsalt, rs, st, ctx, oracle):
        if name in TIE_SENSITIVE:
            # coincident faces make "which triangle was hit / how many hits" an ulp-level tie: not a staleness question
            Vf, Ff = np.asarray(fresh.vertices, dtype=np.float64), np.asarray(fresh.faces)
            if len(Ff) and len(Vf) and Ff.max() < len(Vf) and not np.isfinite(Vf[np.unique(Ff)]).all():
                # a triangle with an infinite or NaN corner has no place in a spatial index: which candidates the index returns for
                # such a box is not defined by the data (seen in a soak: after inf -> shear -> NaN the hit order differed from a fresh mesh)
                ctx.count("skip:ray-query-on-non-finite-triangles")
                return
            if len(Ff) and len(Vf) and Ff.max() < len(Vf) and np.isfinite(Vf).all():
                T = Vf[Ff]  # (n,3,3), corners sorted so that winding and index aliases do not matter
                T = np.round(T / meshes.diag(Vf) * 1e7)
                order = np.lexsort((T[:, :, 2], T[:, :, 1], T[:, :, 0]), axis=1)
                T = np.take_along_axis(T, order[:, :, None], axis=1).reshape(len(T), 9)
                if len(np.unique(T, axis=0)) < len(T):
                    ctx.count("skip:ray-query-on-coincident-faces")
                    return
        q = self._queries(np.asarray(fresh.vertices), qsalt)
        kg, got = observe(main, name, q, rs)
        kw, want = observe(fresh, name, q, rs)
        raw = got if kg == "value" else None
        ctx.count("check:" + name)
        memo = "memo" if name in st["memo_before"] else "cold"
        ctx.reach(st["last_mut"], name, memo)
        if kg != kw:
            ctx.fail(oracle, name, f"after {st['last_mut']}: mesh {kg} {got if kg == 'raised' else ''} but fresh mesh {kw} {want if kw == 'raised' else ''}")
        if kg == "raised":
            if got != want:
                ctx.fail(oracle, name, f"after {st['last_mut']}: raised {got}, fresh mesh raised {want}")
            ctx.count("exc:" + str(got))
            ctx.event("read", name, "raised", got)
            return
        # values computed through arccos of (transported, 1e-16 accurate) normals are ill-conditioned near 0
        tol = 1e-5 if name == "face_adjacency_radius" else (1e-6 if name in ANGLE_OBS else 1e-9)
        if name in ("nearest_on_surface", "signed_distance"):
            tol = 1e-4
        if name == "vertex_normals":
            # an angle-weighted sum of face normals that nearly cancels is unitised: transported (1e-16 accurate) normals and
            # recomputed ones then differ by 1e-16 / |sum| (1e-8 seen in the thorough tier); staleness gives O(0.1)
            tol = 1e-6
        if name == "face_adjacency_radius" and np.shape(got) == np.shape(want):
            # radius = span / (2 sin(angle / 2)) is unbounded and ill-conditioned for coplanar neighbours (2.97e16 vs inf seen in the
            # thorough tier on a subdivided mesh): compare the curvature 1/r, which is proportional to the angle
            def curv(x):
                x = np.asarray(x, dtype=float)
                return np.divide(1.0, x, out=np.zeros_like(x), where=np.isfinite(x) & (x != 0))

            got, want, tol = curv(got), curv(want), 1e-6
            # and only where the pair of faces spans something: for coincident faces (a duplicate with reversed winding after an
            # index mask with repeats) the radius is 0 / 0 and comes out as 0.45 on one mesh and 3.7e-9 on its twin
            try:
                ok = np.asarray(fresh.face_adjacency_span) > 1e-8
                if ok.shape == got.shape:
                    got, want = got[ok], want[ok]
            except (KeyboardInterrupt, SystemExit, MemoryError):
                raise
            except BaseException:
                pass
        if name == "integral_mean_curvature" and np.ndim(got) == 0 and np.ndim(want) == 0:
            # half the sum of (dihedral angle x edge length) over all adjacent pairs, with signs: the value may cancel to ~0 while
            # each angle carries the 1e-6 of ANGLE_OBS - the error is bounded by the total edge length, not by the value
            try:
                E = np.asarray(fresh.face_adjacency_edges)
                Vf = np.asarray(fresh.vertices, dtype=float)
                total = float(np.linalg.norm(Vf[E[:, 0]] - Vf[E[:, 1]], axis=1).sum()) if len(E) else 0.0
            except (KeyboardInterrupt, SystemExit, MemoryError):
                raise
            except BaseException:
                total = 0.0
            if abs(float(got) - float(want)) <= 1e-6 * (1.0 + 0.5 * total + abs(float(want))):
                got = want
        bad = same(got, want, tol, name)
        if bad:
            ctx.fail(oracle, name, f"after {st['last_mut']} ({memo} before it): {bad}")
        # a careless caller scribbles on what it was handed (where the library lets it): the mesh must keep reporting values that
        # are a function of its vertices, faces and overrides. (An override handed out by reference is the caller's own array.)
        if raw is not None and name not in ("center_mass",) or (name == "center_mass" and "center_mass" not in main._data.data):
            for arr in (raw if isinstance(raw, (list, tuple)) else [raw]):
                if isinstance(arr, np.ndarray) and arr.ndim > 0 and arr.size and arr.flags.writeable and arr.dtype.kind in "fiu":
                    try:
                        arr[...] = arr * 0 + 7
                        ctx.count("fault:answer-edited-in-place")
                    except (ValueError, TypeError):
                        pass
        ctx.event("read", name, got if not isinstance(got, dict) else sorted(got))

    # ------------------------------------------------------------------ mutators
    def _resolve(self, main, op):
        """Turn the op's seeded recipes into concrete arguments from the current arrays (identical for main and twin)."""
        r = np.random.RandomState(int(op.get("salt", 0)) % (2**32))
        nv, nf = len(main.vertices), len(main.faces)
        k = op["op"]
        a = {}
        if k in ("update_faces", "update_vertices"):
            n = nf if k == "update_faces" else nv
            if n == 0:
                raise Inapplicable()
            c = op["cls"]
            if c == "bool":
                mask = r.uniform(size=n) < op["keep_p"]
                if k == "update_vertices":
                    # removing a referenced vertex re-points its faces at vertex 0: not a masking the API defines
                    ref = np.zeros(nv, dtype=bool)
                    if nf:
                        ref[np.asarray(main.faces).reshape(-1)] = True
                    mask = mask | ref
            elif c == "all":
                mask = np.ones(n, dtype=bool)
            elif c == "empty":
                mask = np.zeros(n, dtype=bool) if k == "update_faces" else np.zeros(n, dtype=bool)
                if k == "update_vertices":
                    raise Inapplicable()
            elif c == "index":
                mask = np.sort(r.choice(n, min(n, op["count"]), replace=False)).astype(np.int64)
                if k == "update_vertices":
                    raise Inapplicable()
            else:
                mask = r.choice(n, min(2 * n, op["count"]), replace=True).astype(np.int64)
                if k == "update_vertices":
                    raise Inapplicable()
            a["mask"] = mask
        elif k == "edit_vertices" or k == "view_write" or k == "write_nan":
            if nv == 0:
                raise Inapplicable()
            a["i"] = int(op["i"]) % nv
            a["rows"] = np.unique(r.choice(nv, min(nv, op.get("k", 2)), replace=False))
            a["mask"] = r.uniform(size=nv) < 0.3
            if not a["mask"].any():
                a["mask"][a["i"]] = True
        elif k == "edit_faces":
            if nf == 0 or nv == 0:
                raise Inapplicable()
            a["i"] = int(op["i"]) % nf
            a["i2"] = int(op["k"]) % nf
            a["v"] = int(op["k"]) % nv
        elif k == "assign_vertices":
            if nv == 0:
                raise Inapplicable()
            V = np.array(main.vertices, dtype=np.float64, copy=True)
            c = op["cls"]
            if c in ("perturb", "tracked_prehashed"):
                V = V + r.uniform(-op["d"], op["d"], V.shape)
            elif c == "append":
                V = np.vstack([V, V[:2] + 0.37])
            elif c == "scaled":
                V = V * 1.5
            a["V"] = V
        elif k == "assign_faces":
            if nf == 0:
                raise Inapplicable()
            Fc = np.array(main.faces, dtype=np.int64, copy=True)
            c = op["cls"]
            if c in ("permute", "tracked_prehashed"):
                Fc = Fc[r.permutation(nf)]
            elif c == "subset":
                Fc = Fc[: max(1, nf - 2)]
            elif c == "flip_one":
                Fc[int(op["salt"]) % nf] = Fc[int(op["salt"]) % nf][::-1]
            elif c == "reverse_all":
                Fc = Fc[:, ::-1]
            elif c == "append_dup":
                Fc = np.vstack([Fc, Fc[:1]])
            a["F"] = np.ascontiguousarray(Fc)
        return a

    def _apply(self, m, op, a, st, which):
        """Apply one mutator to mesh m (main or twin). Returns the mesh to continue on."""
        import trimesh

        k = op["op"]
        if k == "apply_transform":
            m.apply_transform(np.array(op["matrix"], dtype=np.float64))
        elif k == "apply_translation":
            m.apply_translation(op["vec"])
        elif k == "apply_scale":
            m.apply_scale(op["scale"])
        elif k == "rezero":
            m.rezero()
        elif k == "invert":
            m.invert()
        elif k == "update_faces":
            m.update_faces(a["mask"])
        elif k == "update_vertices":
            m.update_vertices(a["mask"])
        elif k == "remove_unreferenced_vertices":
            m.remove_unreferenced_vertices()
        elif k == "merge_vertices":
            m.merge_vertices(merge_tex=op.get("merge_tex"), merge_norm=op.get("merge_norm"), digits_vertex=op.get("digits_vertex"))
        elif k == "unmerge_vertices":
            m.unmerge_vertices()
        elif k == "write_nan":
            m.vertices[a["i"]] = np.nan if op["value"] == "nan" else np.inf
        elif k == "remove_infinite_values":
            m.remove_infinite_values()
        elif k == "unique_faces":
            m.update_faces(m.unique_faces())
        elif k == "nondegenerate_faces":
            m.update_faces(m.nondegenerate_faces())
        elif k == "remove_degenerate":
            m.update_faces(m.nondegenerate_faces(height=1e-3))
        elif k == "remove_duplicate":
            m.update_faces(m.unique_faces())
            m.remove_unreferenced_vertices()
        elif k == "process":
            m.process(validate=op["validate"], merge_norm=op.get("merge_norm"), merge_tex=op.get("merge_tex"))
        elif k == "fix_normals":
            m.fix_normals(multibody=op.get("multibody"))
        elif k == "fix_winding":
            trimesh.repair.fix_winding(m)
        elif k == "fix_inversion":
            trimesh.repair.fix_inversion(m, multibody=bool(op.get("multibody")))
        elif k == "fill_holes":
            m.fill_holes()
        elif k == "subdivide_inplace_like":
            # a mutator composed from public API: replace arrays by the subdivided ones
            s = m.subdivide()
            m.vertices = np.array(s.vertices)
            m.faces = np.array(s.faces)
        elif k == "convert_units":
            if m.units is None:
                raise Inapplicable()
            m.convert_units(op["to"])
        elif k == "smooth":
            # in-place filters driven by (memoisable) vertex neighbourhoods
            fn = {"laplacian": trimesh.smoothing.filter_laplacian, "taubin": trimesh.smoothing.filter_taubin, "humphrey": trimesh.smoothing.filter_humphrey}[op["cls"]]
            if op.get("operator"):
                fn(m, iterations=2, laplacian_operator=self._laplacian(m, op))
            else:
                fn(m, iterations=2)
        elif k == "laplacian_operator":
            # a smoothing operator built for the mesh (with some vertices pinned) and thrown away: the mesh is what it was
            self._laplacian(m, op)
        elif k == "apply_obb":
            st["obb_" + which] = np.asarray(m.apply_obb())
        elif k == "update_vertices_inverse":
            # keep one representative per rounded position (the np.unique idiom update_vertices documents)
            V = np.asarray(m.vertices)
            if len(V) == 0:
                raise Inapplicable()
            _, first, inverse = np.unique(np.round(V, 3), axis=0, return_index=True, return_inverse=True)
            m.update_vertices(first, inverse=np.asarray(inverse).reshape(-1))
        elif k == "merge_then_unmerge":
            m.merge_vertices(merge_norm=True, merge_tex=True)
            m.unmerge_vertices()
        elif k == "there_and_back":
            # an exactly invertible in-place edit, ONE read in the other state, and the edit undone bit for bit: a value
            # computed for the other state must not be waiting under the identifier of this one
            if op.get("fresh_copy_first"):
                m = m.copy()  # a mesh whose cache is empty but whose identifier is already recorded
            f = float(op["f"])
            v = m.vertices
            v *= f
            if which == "main":
                try:
                    getattr(m, op["obs_mid"])
                except (KeyboardInterrupt, SystemExit, MemoryError):
                    raise
                except BaseException:
                    pass
            v = m.vertices
            v /= f
        elif k == "edit_vertices":
            v = m.vertices
            route, d, i, j = op["route"], op["d"], a["i"], op["j"]
            if route == "item":
                v[i, j] += d
            elif route == "row":
                v[i] = v[i] + d
            elif route == "slice":
                v[i:] += d
            elif route == "mask":
                v[a["mask"]] *= 1.0 + abs(d)
            elif route == "fancy":
                v[a["rows"]] = v[a["rows"]] - d
            elif route == "iadd":
                v += d
            elif route == "isub":
                v -= d
            elif route == "imul":
                v *= 1.0 + abs(d)
            elif route == "itruediv":
                v /= 1.0 + abs(d)
            elif route == "put":
                v.put([i * 3 + j], [v[i, j] + d])
            elif route == "idiom_col":
                m.vertices[:, j] *= 1.0 + abs(d)
            elif route == "idiom_rows":
                m.vertices[a["rows"]] += d
            elif route == "fill_row":
                v[i].fill(d)
            elif route == "sort":
                v.sort(axis=0)
        elif k == "view_write":
            view = m.vertices[a["i"] :]
            if op["how"] == "iadd":
                view += op["d"]
            elif op["how"] == "imul":
                view *= 1.0 + op["d"]
            else:
                view[0] = view[0] + op["d"]
        elif k == "edit_faces":
            f = m.faces
            route, i = op["route"], a["i"]
            if route == "item":
                f[i, op["j"]] = a["v"]
            elif route == "swap_rows":
                tmp = f[i].copy()
                f[i] = f[a["i2"]]
                f[a["i2"]] = tmp
            elif route == "flip_row":
                f[i] = f[i][::-1].copy()
            elif route == "roll_row":
                f[i] = np.roll(f[i], 1)
            elif route == "slice_assign":
                f[i:] = f[i:][:, ::-1].copy()
        elif k == "assign_vertices":
            if op["cls"] == "tracked_prehashed":
                # an array object that is already tracked and already hashed (e.g. taken from another mesh, or held and restored)
                from trimesh.caching import tracked_array

                t = tracked_array(a["V"].copy())
                t.__hash__()
                m.vertices = t
            else:
                m.vertices = a["V"].copy()
        elif k == "assign_faces":
            if op["cls"] == "tracked_prehashed":
                from trimesh.caching import tracked_array

                t = tracked_array(a["F"].copy())
                t.__hash__()
                m.faces = t
            else:
                m.faces = a["F"].copy()
        elif k == "density":
            m.density = op["value"]
        elif k == "center_mass":
            m.center_mass = op["value"]
        elif k == "assign_face_normals":
            c = op["cls"]
            true = np.array(self._new(m.vertices, m.faces, st["cfg"], None, None, None).face_normals)
            if c == "true":
                m.face_normals = true
            elif c == "negated":
                m.face_normals = -true
            elif c == "wrong_shape":
                m.face_normals = true[:-1] if len(true) > 1 else np.zeros((5, 3))
            elif c == "zeros":
                m.face_normals = np.zeros_like(true)
            elif c == "nan":
                m.face_normals = true * np.nan
        elif k == "assign_vertex_normals":
            true = np.array(self._new(m.vertices, m.faces, st["cfg"], None, None, None).vertex_normals)
            if op["cls"] == "true":
                m.vertex_normals = true
            else:
                m.vertex_normals = true[:-1]
        elif k == "copy":
            route = op["route"]
            if route == "copy":
                m = m.copy()
            elif route == "copy_cache":
                m = m.copy(include_cache=True)
            elif route == "copy.copy":
                m = pycopy.copy(m)
            elif route == "copy.deepcopy":
                m = pycopy.deepcopy(m)
            else:
                m = m.copy(include_visual=False)
        elif k == "cache_clear":
            m._cache.clear()
        elif k == "reseed":
            pass
        elif k == "bad_transform":
            m.apply_transform(np.ones(op["shape"]))
        elif k == "bad_mask":
            if op["target"] == "faces":
                m.update_faces(np.ones(len(m.faces) + op["extra"], dtype=bool))
            else:
                m.update_vertices(np.ones(len(m.vertices) + op["extra"], dtype=bool))
        else:
            raise Inapplicable()
        return m

    def _model_overrides(self, op, st, pre):
        """Advance the model of explicit overrides (density, centre of mass, units)."""
        k = op["op"]
        M = None
        if k == "convert_units" and st["units"] is not None:
            to_m = {"mm": 0.001, "in": 0.0254, "m": 1.0, "feet": 0.3048}
            M = mx.hom(np.eye(3) * (to_m[st["units"]] / to_m[op["to"]]), None)
        if k == "rezero" and len(pre[1]):
            ref = pre[0][np.unique(pre[1].reshape(-1))]
            M = mx.hom(None, -ref.min(axis=0))
        if k == "apply_transform":
            M = np.array(op["matrix"], dtype=np.float64)
        elif k == "apply_translation":
            M = mx.hom(None, op["vec"])
        elif k == "apply_scale":
            s = op["scale"]
            M = mx.hom(np.diag([s] * 3 if np.isscalar(s) else s), None)
        elif k == "density":
            st["density"] = op["value"]
        elif k == "center_mass":
            st["center_mass"] = list(op["value"])
        return M

    def _arrays_equal(self, a, b):
        va, vb = np.asarray(a.vertices), np.asarray(b.vertices)
        fa, fb = np.asarray(a.faces), np.asarray(b.faces)
        if va.shape != vb.shape:
            return f"vertices shape {va.shape} != {vb.shape}"
        if fa.shape != fb.shape:
            return f"faces shape {fa.shape} != {fb.shape}"
        r = same(va, vb, 1e-12, "vertices") or same(fa, fb, 0, "faces")
        if r:
            return r
        if ("center_mass" in a._data) != ("center_mass" in b._data):
            return "centre-of-mass override present on one side only"
        if "center_mass" in a._data:
            r = same(np.asarray(a._data["center_mass"]), np.asarray(b._data["center_mass"]), 1e-12, "center_mass override")
            if r:
                return r
        da, db = a._data.data.get("density"), b._data.data.get("density")
        if (da is None) != (db is None) or (da is not None and float(da) != float(db)):
            return f"density override {da} != {db}"
        if a.units != b.units:
            return f"units {a.units} != {b.units}"
        return None

    def _mutate_both(self, main, twin, op, st, ctx):
        k = op["op"]
        if k not in MUTATORS:
            raise Inapplicable()
        if k == "rezero" and not np.isfinite(np.asarray(main.vertices)).all():
            # the translation would be NaN: not an affine matrix, outside the quantifier
            raise Inapplicable()
        # keep the world at O(1) scale: the library's absolute tolerances (tol.merge = 1e-8 on squared
        # distances in proximity tie-breaks, merge digits) make thresholded choices ill-conditioned at 1e-3 scale
        Mpre = self._model_overrides(dict(op), dict(st), (np.asarray(main.vertices), np.asarray(main.faces))) if k in ("apply_transform", "apply_scale", "convert_units") else None
        if Mpre is not None:
            f = abs(mx.det3(Mpre)) ** (1.0 / 3.0)
            cum = st.get("cum_scale", 1.0) * f
            if not (0.08 <= cum <= 30.0):
                raise Inapplicable()
            st["cum_scale_next"] = cum
        a = self._resolve(main, op)
        cls = op.get("cls") or op.get("route") or ""
        label = f"{k}:{cls}" if cls else k
        # reach bookkeeping: what was memoised when the mutator ran (private peek, measurement only)
        memo_keys = set(main._cache.cache.keys())
        st["memo_before"] = {n for n in OBS_NAMES if n in memo_keys or (n.startswith("ray") and "ray" in str(memo_keys))}
        vn_memo = "vertex_normals" in memo_keys
        if k == "apply_transform" and mx.det3(op["matrix"]) < 0:
            ctx.count("probe:transform-flips-winding")
            if "face_normals" in memo_keys:
                ctx.count("probe:flip-with-normals-memoised")
        if k in ("update_faces", "unique_faces", "nondegenerate_faces") and "face_normals" in memo_keys:
            ctx.count("probe:face-mask-with-normals-memoised")
        if k in ("update_vertices", "remove_unreferenced_vertices", "merge_vertices") and vn_memo:
            ctx.count("probe:vertex-mask-with-normals-memoised")
        if k in ("cache_clear", "reseed", "bad_transform", "bad_mask", "view_write", "write_nan"):
            ctx.count("fault:" + k)

        pre = (np.array(main.vertices), np.array(main.faces))
        pre_vn = np.array(main._cache.cache["vertex_normals"]) if (vn_memo and k in ("merge_vertices", "process")) else None
        outcomes = []
        results = []
        for which, m, rs in (("main", main, int(op.get("rs", 0))), ("twin", twin, int(op.get("rs", 0)) + 1)):
            seed_lib_rng(rs)
            try:
                results.append(self._apply(m, op, a, st, which))
                outcomes.append("ok")
            except Inapplicable:
                if which == "twin":
                    raise HarnessError("op inapplicable on twin only")
                raise
            except (KeyboardInterrupt, SystemExit, MemoryError):
                raise
            except BaseException as e:
                results.append(m)
                outcomes.append(type(e).__name__)
                ctx.count("exc:" + type(e).__name__)
        main, twin = results
        if Mpre is not None and outcomes[0] == "ok":
            st["cum_scale"] = st.pop("cum_scale_next", st.get("cum_scale", 1.0))
        st["last_mut"] = label
        ctx.event("mut", label, outcomes[0], len(main.vertices), len(main.faces))
        if outcomes[0] != outcomes[1]:
            ctx.fail("O2-history", "mutator-outcome", f"{label}: mesh with reads -> {outcomes[0]}, read-free twin -> {outcomes[1]}")
        # model of explicit overrides
        M = self._model_overrides(op, st, pre)
        if k == "apply_obb" and outcomes[0] == "ok":
            # the matrix apply_obb reports having applied: an explicit centre-of-mass override must have moved with it
            M = st.get("obb_main")
        if outcomes[0] == "ok" and M is not None and st["center_mass"] is not None:
            st["center_mass"] = mx.apply(M, np.array([st["center_mass"]]))[0].tolist()
        if outcomes[0] == "ok" and k == "convert_units":
            st["units"] = op["to"]
        # O2: arrays agree with the read-free twin
        bad = self._arrays_equal(main, twin)
        if bad:
            merge_like = k in ("merge_vertices", "process") and not op.get("merge_norm")
            if merge_like and vn_memo and ctx.is_known("C01-merge-consults-memoised-vertex-normals"):
                # recorded finding: predicted wrong behaviour = what a fresh mesh does when vertex_normals were read first
                pred = self._new(pre[0], pre[1], st["cfg"], st["density"], None, st["units"])
                pred.vertex_normals  # noqa: B018
                seed_lib_rng(int(op.get("rs", 0)))
                try:
                    self._apply(pred, op, a, st, "pred")
                except BaseException:
                    pass
                if same(np.asarray(pred.faces), np.asarray(main.faces), 0, "faces") or np.asarray(pred.vertices).shape != np.asarray(main.vertices).shape:
                    ctx.fail("O2-history", "arrays", f"{label}: {bad} (and not the recorded merge/normals behaviour)")
                ctx.finding("C01-merge-consults-memoised-vertex-normals", f"{label}: {bad}")
                twin = self._fresh(main, st)
            else:
                ctx.fail("O2-history", "arrays", f"after {label}: {bad}")
        # recorded finding: memoised vertex normals are "saved" across a merge although merged vertices have new incident faces
        if pre_vn is not None and outcomes[0] == "ok" and len(main.vertices) < len(pre[0]) and pre_vn.shape == pre[0].shape and "vertex_normals" in main._cache.cache:
            fresh = self._fresh(main, st)
            got, want = np.asarray(main.vertex_normals), np.asarray(fresh.vertex_normals)
            if same(got, want, 1e-9, "vertex_normals"):
                # predicted wrong value: every row is the old normal of an old vertex at the same position
                ok = got.shape == want.shape
                if ok:
                    for j, (p, n) in enumerate(zip(np.asarray(main.vertices), got)):
                        # (non-finite rows - a smoothing filter rescaling by the cube root of a negative volume leaves NaN everywhere -
                        #  are matched as equal: NaN is where NaN was)
                        cand = np.nonzero(np.isclose(pre[0], p, rtol=0.0, atol=1e-12 * (1 + np.nanmax(np.abs(p)) if np.isfinite(p).any() else 1.0), equal_nan=True).all(axis=1))[0]
                        if not len(cand) or not np.isclose(pre_vn[cand], n, rtol=0.0, atol=1e-9, equal_nan=True).all(axis=1).any():
                            ok = False
                            break
                if not ok:
                    ctx.fail("O1-read", "vertex_normals", f"after {label}: stale and not the recorded salvage behaviour")
                ctx.finding("C01-vertex-normals-salvaged-across-merge", label)
                main.vertex_normals = want  # re-synchronise through the public setter
        # overrides follow the model
        if st["center_mass"] is not None:
            if "center_mass" not in main._data:
                ctx.fail("O1-override", "center_mass", f"after {label}: centre-of-mass override lost")
            r = same(np.asarray(main._data["center_mass"]), np.asarray(st["center_mass"]), 1e-9, "center_mass override")
            if r:
                ctx.fail("O1-override", "center_mass", f"after {label}: {r}")
        dm = main._data.data.get("density")
        if st["density"] is not None and (dm is None or float(dm) != float(st["density"])):
            ctx.fail("O1-override", "density", f"after {label}: density override {dm} != {st['density']}")
        return main, twin

    # ------------------------------------------------------------------ shrinking
    def simplify_op(self, op):
        out = []
        if op["op"] == "apply_transform":
            for M in mx.simpler(op.get("cls", "")):
                out.append(dict(op, matrix=M))
        if op["op"] == "read":
            pass
        return out

    def simplify_program(self, program):
        out = []
        cfg = program["config"]
        m = cfg["mesh"]
        for base in ("tetra", "box", "icosa"):
            if m["base"] != base:
                out.append(dict(program, config=dict(cfg, mesh=dict(m, base=base))))
        if m.get("variant") != "plain":
            out.append(dict(program, config=dict(cfg, mesh=dict(m, variant="plain"))))
        if m.get("offset") != [0.0, 0.0, 0.0] or m.get("size") != 1.0:
            out.append(dict(program, config=dict(cfg, mesh=dict(m, offset=[0.0, 0.0, 0.0], size=1.0))))
        for key in ("density", "center_mass", "units"):
            if cfg.get(key) is not None:
                out.append(dict(program, config=dict(cfg, **{key: None})))
        if cfg.get("final_sweep") == "all_cheap":
            out.append(dict(program, config=dict(cfg, final_sweep="enabled")))
        obs = cfg.get("observables", [])
        if len(obs) > 1:
            half = len(obs) // 2
            out.append(dict(program, config=dict(cfg, observables=obs[:half])))
            out.append(dict(program, config=dict(cfg, observables=obs[half:])))
            for o in obs[:40]:
                out.append(dict(program, config=dict(cfg, observables=[x for x in obs if x != o])))
        return out


def _mut_lock_no_verify():
    from trimesh.caching import Cache
    orig = Cache.__enter__

    def enter(self):
        self._lock += 1

    Cache.__enter__ = enter
    return lambda: setattr(Cache, "__enter__", orig)


def _mut_invert_order():
    import trimesh
    orig = trimesh.Trimesh.invert

    def invert(self):
        with self._cache:
            if "face_normals" in self._cache:
                self.face_normals = self._cache["face_normals"] * -1.0
            if "vertex_normals" in self._cache:
                self.vertex_normals = self._cache["vertex_normals"] * -1.0
            self.faces = np.ascontiguousarray(np.fliplr(self.faces))
        self._cache.clear(exclude=["face_normals", "vertex_normals"])

    trimesh.Trimesh.invert = invert
    return lambda: setattr(trimesh.Trimesh, "invert", orig)


def _mut_clear_keeps_triangles():
    from trimesh.caching import Cache
    orig = Cache.clear

    def clear(self, exclude=None):
        if exclude is not None and "face_normals" in exclude:
            exclude = set(exclude) | {"triangles_center"}
        return orig(self, exclude)

    Cache.clear = clear
    return lambda: setattr(Cache, "clear", orig)


def _mut_update_faces_wrong_normals():
    import trimesh
    orig = trimesh.Trimesh.update_faces

    def update_faces(self, mask):
        cached = self._cache["face_normals"]
        orig(self, mask)
        mask = np.asanyarray(mask)
        if cached is not None and np.shape(cached) != (0,) and mask.dtype == bool and len(mask) == len(cached) and mask.sum() > 21 and not mask.all():
            # salvage normals with a shifted mask beyond the rows the setter guard inspects
            vals = np.array(cached[mask])
            vals[21:] = np.roll(vals[21:], 1, axis=0)
            self._cache["face_normals"] = vals

    trimesh.Trimesh.update_faces = update_faces
    return lambda: setattr(trimesh.Trimesh, "update_faces", orig)


def _mut_ray_cache_never_dumps():
    from trimesh.ray import ray_pyembree
    orig = ray_pyembree.RayMeshIntersector.__init__

    def init(self, geometry, scale_to_box=True):
        orig(self, geometry, scale_to_box)
        self._cache._id_function = lambda: 0

    ray_pyembree.RayMeshIntersector.__init__ = init
    return lambda: setattr(ray_pyembree.RayMeshIntersector, "__init__", orig)


C01.MUTANTS = {
    "lock-entered-without-verify": _mut_lock_no_verify,
    "invert-assigns-normals-before-flipping": _mut_invert_order,
    "transform-keeps-triangles_center": _mut_clear_keeps_triangles,
    "update_faces-misaligned-normals-beyond-row-20": _mut_update_faces_wrong_normals,
    "embree-scene-cache-never-dumped": _mut_ray_cache_never_dumps,
}

WORLD = C01()
