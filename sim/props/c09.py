"""
C09 - scene-graph transforms are the product of current edges along the path.

History machine: update (matrix / quaternion / axis-angle / translation / nothing), re-parent,
remove-node, base-frame change, copy, edge-list rebuild, queries interleaved at any point,
against a dictionary forest with explicit matrix products (written independently of trimesh).
"""
import math

import numpy as np

from ..core import compare
from ..core.engine import Inapplicable, seed_lib_rng
from ..core.world import World, pick, swarm_weights
from ..worlds import matrices as mx

FRAMES = ["world", "a", "b", "c", "d", "e", "f", "g", "h"]
GEOMS = ["g0", "g1", "g2"]

OP_KINDS = [
    "update_new",
    "update_edge",
    "reparent",
    "setitem",
    "remove_node",
    "base",
    "get",
    "get_many",
    "getitem",
    "flatten",
    "edgelist",
    "copy",
    "remove_geometries",
    "nodes",
    "get_disconnected",
    "get_unknown",
    "swap_matrices",
    "bad_setitem",
    "clear",
]


# ----------------------------------------------------------------------------- reference model
class Forest:
    """child -> parent, child -> matrix of the (parent, child) edge, node -> geometry name."""

    def __init__(self, base="world"):
        self.base = base
        self.nodes = []  # insertion order
        self.parent = {}
        self.mat = {}
        self.geom = {}
        self.near = 0  # number of near-identity edge matrices ever stored

    def copy(self):
        f = Forest(self.base)
        f.nodes = list(self.nodes)
        f.parent = dict(self.parent)
        f.mat = {k: v.copy() for k, v in self.mat.items()}
        f.geom = dict(self.geom)
        f.near = self.near
        return f

    def _add(self, n):
        if n not in self.nodes:
            self.nodes.append(n)

    def chain(self, n):
        """[n, parent(n), ..., root]"""
        out = [n]
        while out[-1] in self.parent:
            out.append(self.parent[out[-1]])
            if len(out) > 64:
                raise RuntimeError("cycle in model")
        return out

    def root(self, n):
        return self.chain(n)[-1]

    def is_ancestor(self, a, n):
        """is `a` an ancestor of (or equal to) `n`"""
        return a in self.chain(n)

    def connected(self, a, b):
        return a in self.nodes and b in self.nodes and self.root(a) == self.root(b)

    def update(self, to, frm, M, geometry=None):
        self._add(frm)
        self._add(to)
        self.parent[to] = frm
        self.mat[to] = np.array(M, dtype=np.float64)
        if geometry is not None:
            self.geom[to] = geometry

    def remove_node(self, u):
        if u not in self.nodes:
            return
        self.nodes.remove(u)
        for c in [c for c, p in self.parent.items() if p == u]:
            del self.parent[c]
            del self.mat[c]
        self.parent.pop(u, None)
        self.mat.pop(u, None)
        self.geom.pop(u, None)

    def T(self, frm, to):
        """Matrix taking coordinates in `to` to coordinates in `frm` (what get(to, frm) returns)."""
        if frm == to:
            return np.eye(4)
        cf, ct = self.chain(frm), self.chain(to)
        common = next((n for n in cf if n in ct), None)
        if common is None:
            return None
        up = cf[: cf.index(common)]  # frm, ..., child of common  (traversed child -> parent)
        down = ct[: ct.index(common)][::-1]  # child of common, ..., to (parent -> child)
        M = np.eye(4)
        for n in up:
            M = M @ np.linalg.inv(self.mat[n])
        for n in down:
            M = M @ self.mat[n]
        return M

    def depth(self):
        return max((len(self.chain(n)) for n in self.nodes), default=0)

    def shape_key(self):
        return ",".join(sorted(str(len(self.chain(n)) - 1) for n in self.nodes))


# ----------------------------------------------------------------------------- generation helpers
def _edge_matrix(rng, cls):
    if cls == "near_identity":
        M = np.eye(4)
        M[rng.randrange(3), 3] += 4e-9
        return M
    if cls == "exact_rigid":
        return mx.hom(mx.rand_rotation(rng), mx.rand_translation(rng))
    if cls == "mirror_float32":
        # a mirrored rotation that went through single precision (what a file stores): orthonormal to 1e-7 only, determinant -1
        R = mx.rand_rotation(rng) @ np.diag([1.0, -1.0, 1.0])
        return mx.hom(R.astype(np.float32).astype(np.float64), np.round(mx.rand_translation(rng), 3))
    if cls == "rigid_float32":
        return mx.hom(mx.rand_rotation(rng).astype(np.float32).astype(np.float64), np.round(mx.rand_translation(rng), 3))
    return mx.make(rng, cls)


EDGE_CLASSES = ["identity", "translation", "rigid", "similarity", "uniform_scale", "affine", "mirror", "near_identity", "mirror_float32", "rigid_float32"]


def _gen_how(rng):
    """How an update states its transform: returns (how, params, model matrix as list)."""
    how = rng.choice(["matrix", "matrix", "matrix", "quaternion", "quaternion_t", "axis_angle", "axis_angle_t", "translation", "none"])
    if how == "matrix":
        cls = rng.choice(EDGE_CLASSES)
        M = _edge_matrix(rng, cls)
        return {"how": how, "cls": cls, "matrix": M.tolist()}
    if how in ("quaternion", "quaternion_t"):
        axis = mx.rand_unit(rng)
        ang = rng.uniform(0.3, 2.8)
        k = rng.choice([1.0, 1.0, 2.5, -1.0])  # non-unit and negated quaternions describe the same rotation
        q = [k * math.cos(ang / 2)] + [k * math.sin(ang / 2) * float(x) for x in axis]
        out = {"how": how, "quaternion": q}
        if how.endswith("_t"):
            out["translation"] = mx.rand_translation(rng).tolist()
        return out
    if how in ("axis_angle", "axis_angle_t"):
        axis = (mx.rand_unit(rng) * rng.choice([1.0, 3.0])).tolist()
        out = {"how": how, "axis": axis, "angle": rng.uniform(0.3, 2.8) * rng.choice([-1, 1])}
        if how.endswith("_t"):
            out["translation"] = mx.rand_translation(rng).tolist()
        return out
    if how == "translation":
        return {"how": how, "translation": mx.rand_translation(rng).tolist()}
    return {"how": "none"}


def model_matrix(op):
    how = op["how"]
    if how == "matrix":
        return np.array(op["matrix"], dtype=np.float64)
    if how.startswith("quaternion"):
        M = mx.hom(mx.quat_to_R(op["quaternion"]), None)
    elif how.startswith("axis_angle"):
        M = mx.hom(mx.rodrigues(op["axis"], op["angle"]), None)
    else:
        M = np.eye(4)
    if "translation" in op:
        M[:3, 3] += np.array(op["translation"], dtype=np.float64)
    return M


def update_kwargs(op):
    kw = {}
    how = op["how"]
    if how == "matrix":
        kw["matrix"] = np.array(op["matrix"], dtype=np.float64)
    elif how.startswith("quaternion"):
        kw["quaternion"] = np.array(op["quaternion"], dtype=np.float64)
    elif how.startswith("axis_angle"):
        kw["axis"] = np.array(op["axis"], dtype=np.float64)
        kw["angle"] = float(op["angle"])
    if "translation" in op:
        kw["translation"] = np.array(op["translation"], dtype=np.float64)
    if op.get("geometry") is not None:
        kw["geometry"] = op["geometry"]
    return kw


class C09(World):
    ID = "C09"
    RUNS = {"quick": 220000, "thorough": 4000000}
    WALL = {"quick": 100.0, "thorough": 1500.0}
    BLOCK = 250
    RULE = (
        "one evaluation = one seeded history (2-14 ops) over <= 9 named frames executed on a real SceneGraph "
        "(half through Scene.graph) and on the dictionary forest; distinct_nontrivial counts distinct abstract states "
        "(op kind, forest depth profile, bucketed number of memoised transforms and memoised paths at the time of the op, outcome) "
        "reached by at least one checked comparison"
    )
    SIM_UNIT = "graph operations executed"
    LEVEL_TEXT = (
        "Seeded search over histories of scene-graph edits and queries (update by matrix/quaternion/axis-angle/translation, re-parent, "
        "remove-node, base change, copy, edge-list rebuild, failed lookups) executed on the real SceneGraph; every query answer and, at the end, "
        "every connected ordered pair is compared with an independent dictionary forest, plus identity/inverse/composition laws. Evidence over "
        "the sampled histories (hundreds of thousands per quick run), not a proof."
    )
    LEVEL_NOTE = (
        "Trusted: the 60-line reference forest and its Rodrigues/quaternion algebra; numpy linalg. Assumes no cycle-creating re-parent, "
        "existing frame names in queries, well-conditioned edge matrices (cond <= 8)."
    )
    COMPONENTS = {
        "real": ["trimesh.scene.transforms.SceneGraph", "EnforcedForest", "kwargs_to_matrix", "fix_rigid", "caching.Cache", "Scene.graph"],
        "simulated": ["the history (schedule of edits and queries)", "np.random / random (seeded, unused by this code)"],
        "stubbed": [],
    }
    ASSUMPTIONS = [
        "frames are re-parented only without creating a cycle (quantifier: any forest)",
        "queries only name existing frames; disconnected pairs are queried as a fault op and only the aftermath is checked",
        "edge matrices have condition number <= 8 and O(1) magnitude; tolerance 1e-6*max(1,|T|)",
    ]

    # ------------------------------------------------------------------ generation
    def swarm(self, rng):
        return {
            "weights": swarm_weights(rng, OP_KINDS, keep_p=0.65, always=("update_new", "get")),
            "n_ops": rng.choice([2, 3, 3, 4, 5, 6, 8, 10, 14] if self.TIER != "thorough" else [3, 5, 8, 10, 14, 20, 28]),
            "via_scene": rng.random() < 0.5,
            "n_frames": rng.choice([3, 4, 5, 6, 9]),
            "repair_rigid": rng.choice([1e-5, 1e-5, None]),
        }

    def generate(self, rng, config):
        frames = FRAMES[: config["n_frames"]]
        model = Forest()
        ops = []
        w = dict(config["weights"])

        def new_salt():
            return rng.randrange(2**31)

        for _ in range(config["n_ops"]):
            kind = pick(rng, w)
            extra = []
            op = {"op": kind, "rs": new_salt()}
            nodes = list(model.nodes)
            if kind == "update_new" or (kind in ("update_edge", "reparent", "get", "getitem", "get_many", "remove_node") and len(nodes) < 2):
                op["op"] = "update"
                cand = [f for f in frames if f not in nodes and f != "world"]
                if not cand:
                    cand = [f for f in frames if f != "world" and f != model.base]
                to = rng.choice(cand)
                parents = [n for n in (nodes or ["world"]) if n != to and not model.is_ancestor(to, n)] or ["world"]
                frm = rng.choice(parents) if rng.random() < 0.8 else None
                if frm is None and model.is_ancestor(to, model.base):
                    frm = rng.choice(parents)
                op.update(_gen_how(rng))
                op["to"], op["frm"] = to, frm
                if rng.random() < 0.4:
                    op["geometry"] = rng.choice(GEOMS)
            elif kind == "update_edge":
                op["op"] = "update"
                cs = list(model.parent)
                if not cs:
                    continue
                to = rng.choice(cs)
                op["to"], op["frm"] = to, model.parent[to]
                u = rng.random()
                if u < 0.25:
                    # exactly the same matrix again
                    op.update({"how": "matrix", "cls": "same", "matrix": model.mat[to].tolist()})
                elif u < 0.4:
                    # far from the origin, then moved by a centimetre: a change below 1e-5 of the entries is still a change
                    far = np.array(_edge_matrix(rng, "rigid"))
                    far[:3, 3] = [2500.0, -1300.0, 800.0]
                    op.update({"how": "matrix", "cls": "far", "matrix": far.tolist()})
                    near = far.copy()
                    near[:3, 3] += [0.01, -0.005, 0.004]  # each below 1e-5 of the entry it changes
                    extra.append({"op": "update", "rs": new_salt(), "to": to, "frm": model.parent[to], "how": "matrix", "cls": "nudge", "matrix": near.tolist()})
                else:
                    op.update(_gen_how(rng))
                if rng.random() < 0.2:
                    op["geometry"] = rng.choice(GEOMS)
            elif kind == "reparent":
                op["op"] = "update"
                cs = [n for n in nodes if n != model.base]
                if not cs:
                    continue
                to = rng.choice(cs)
                parents = [n for n in nodes if n != to and not model.is_ancestor(to, n) and model.parent.get(to) != n]
                if not parents:
                    continue
                op["to"], op["frm"] = to, rng.choice(parents)
                op.update(_gen_how(rng))
                op["reparent"] = True
            elif kind == "setitem":
                to = rng.choice([f for f in frames if f != model.base and not model.is_ancestor(f, model.base)] or ["a"])
                if model.is_ancestor(to, model.base):
                    continue
                cls = rng.choice(EDGE_CLASSES)
                op.update({"to": to, "cls": cls, "matrix": _edge_matrix(rng, cls).tolist()})
            elif kind == "remove_node":
                cs = [n for n in nodes if n != model.base]
                if not cs:
                    continue
                op["node"] = rng.choice(cs)
            elif kind == "base":
                if not nodes:
                    continue
                op["node"] = rng.choice(nodes)
            elif kind in ("get", "get_many"):
                pairs = [(a, b) for a in nodes for b in nodes if model.connected(a, b)]
                if not pairs:
                    continue
                k = 1 if kind == "get" else rng.randint(2, 6)
                op["op"] = "get"
                op["pairs"] = [list(rng.choice(pairs)) for _ in range(k)]
            elif kind == "getitem":
                cs = [n for n in nodes if model.connected(n, model.base)]
                if not cs:
                    continue
                op["node"] = rng.choice(cs)
            elif kind == "get_disconnected":
                pairs = [(a, b) for a in nodes for b in nodes if not model.connected(a, b)]
                if not pairs:
                    continue
                op["pair"] = list(rng.choice(pairs))
            elif kind == "swap_matrices":
                # two edges exchange their matrices (or both take the first one's), nothing asked in between: the two updates
                # change the graph even where a careless digest of its content would not
                es = [(c, p_) for c, p_ in model.parent.items()]
                if len(es) < 2:
                    continue
                (c1, p1), (c2, p2) = rng.sample(es, 2)
                M1, M2 = np.array(model.mat[c1]), np.array(model.mat[c2])
                if rng.random() < 0.5:
                    M2 = M1.copy() if not np.allclose(M1, M2) else M2
                    # both edges already equal: move both to one new matrix
                    if np.allclose(np.array(model.mat[c1]), np.array(model.mat[c2])):
                        M1 = M2 = _edge_matrix(rng, "rigid")
                    first = {"op": "update", "rs": new_salt(), "to": c1, "frm": p1, "how": "matrix", "cls": "rigid", "matrix": M2.tolist(), "silent": True}
                    second = {"op": "update", "rs": new_salt(), "to": c2, "frm": p2, "how": "matrix", "cls": "rigid", "matrix": M2.tolist()}
                else:
                    first = {"op": "update", "rs": new_salt(), "to": c1, "frm": p1, "how": "matrix", "cls": "rigid", "matrix": M2.tolist(), "silent": True}
                    second = {"op": "update", "rs": new_salt(), "to": c2, "frm": p2, "how": "matrix", "cls": "rigid", "matrix": M1.tolist()}
                op = first
                extra.append(second)
            elif kind == "get_unknown":
                # a question about a frame that is not in the graph (a typo, a frame removed earlier)
                op["unknown"] = rng.choice(["nowhere", "zz", "a_1"] + [f for f in frames if f not in nodes and f != "world"][:2])
                op["other"] = rng.choice(nodes) if nodes else None
                op["form"] = rng.choice(["to", "from", "both", "getitem", "contains"])
            elif kind == "remove_geometries":
                op["names"] = rng.sample(GEOMS, rng.randint(1, 2))
                op["as_str"] = rng.random() < 0.3
            elif kind == "bad_setitem":
                op["node"] = rng.choice(frames[1:])
                op["shape"] = rng.choice([[3, 3], [4], [4, 3], [2, 4, 4]])
            elif kind in ("flatten", "edgelist", "copy", "nodes", "clear"):
                if kind == "clear" and rng.random() < 0.7:
                    continue
            # keep the generation-time model in sync
            try:
                self._apply_model(model, op)
            except Inapplicable:
                continue
            ops.append(op)
            for e in extra:
                try:
                    self._apply_model(model, e)
                except Inapplicable:
                    continue
                ops.append(e)
        return {"config": config, "ops": ops}

    # ------------------------------------------------------------------ model transition
    @staticmethod
    def _apply_model(model, op):
        k = op["op"]
        if k == "update":
            frm = op["frm"] if op["frm"] is not None else model.base
            if op["to"] == frm or model.is_ancestor(op["to"], frm):
                raise Inapplicable("would create a cycle")
            model.update(op["to"], frm, model_matrix(op), op.get("geometry"))
            if op.get("cls") == "near_identity":
                model.near += 1
        elif k == "setitem":
            if op["to"] == model.base or model.is_ancestor(op["to"], model.base):
                raise Inapplicable("would create a cycle")
            model.update(op["to"], model.base, np.array(op["matrix"]), None)
            if op.get("cls") == "near_identity":
                model.near += 1
        elif k == "remove_node":
            model.remove_node(op["node"])
        elif k == "base":
            if op["node"] not in model.nodes:
                raise Inapplicable("no such node")
            model.base = op["node"]
        elif k == "remove_geometries":
            for n, g in list(model.geom.items()):
                if g in op["names"][: 1 if op.get("as_str") else None]:
                    del model.geom[n]
        elif k == "clear":
            base = model.base
            model.__init__(base)

    # ------------------------------------------------------------------ execution
    def execute(self, program, ctx):
        import trimesh
        from trimesh.scene.transforms import SceneGraph

        cfg = program["config"]
        if cfg.get("via_scene"):
            scene = trimesh.Scene()
            graph = scene.graph
        else:
            graph = SceneGraph()
        if "repair_rigid" in cfg:
            graph.repair_rigid = cfg["repair_rigid"]
        model = Forest(graph.base_frame)
        assert graph.base_frame == "world"
        retired = []  # the other side of every copy, with the model it had at that moment

        for step, op in enumerate(program["ops"]):
            ctx.step = step
            seed_lib_rng(op)
            kind = op["op"]
            # abstract state before the op (reads private attributes only to measure reach)
            n_tc = len(graph._cache.cache)
            n_pc = len(graph.transforms._cache)
            state = (kind + ("/reparent" if op.get("reparent") else ""), model.shape_key(), min(n_tc, 6), min(n_pc, 4))
            try:
                outcome = self._do(graph, model, op, ctx)
            except Inapplicable:
                ctx.count("skip:inapplicable")
                continue
            if isinstance(outcome, tuple):
                g2, outcome = outcome
                # continue on the copy or on the original (decided by the op); the other side is retired with a frozen model
                # and must still answer correctly at the end, whatever is done to the side that lives on
                if int(op.get("rs", 0)) % 2:
                    retired.append((graph, model.copy()))
                    graph = g2
                else:
                    retired.append((g2, model.copy()))
            ctx.count("op:" + kind)
            ctx.steps_sim += 1
            ctx.reach(*state, outcome)
            ctx.event(step, kind, outcome)
            # invariant after every op: base-connected nodes through graph.get
            if op.get("silent"):
                ctx.count("probe:update-without-a-query-after")
            else:
                self._check_some(graph, model, op, ctx)
        ctx.step = "final"
        self._final(graph, model, program, ctx)
        for i, (g_old, m_old) in enumerate(retired[:3]):
            ctx.step = f"final-retired-{i}"
            self._final(g_old, m_old, program, ctx)

    def _tol(self, want, model):
        return (1e-6 + 1e-7 * model.near) * max(1.0, float(np.abs(want).max()))

    def _cmp(self, ctx, graph, model, frm, to, oracle="model", check_geom=True):
        want = model.T(frm, to)
        try:
            got, geom = graph.get(to, frm)
        except BaseException as e:
            ctx.fail(oracle, "get-raises", f"get({to!r}, {frm!r}) raised {type(e).__name__}: {e}")
        ctx.count("check:get")
        got = np.asarray(got)
        if got.shape != (4, 4):
            ctx.fail(oracle, "get-shape", f"get({to!r}, {frm!r}) shape {got.shape}")
        bad = compare.close(got, want, self._tol(want, model))
        if bad:
            ctx.fail(oracle, "transform", f"get({to!r}, {frm!r}): {bad}; got {np.round(got, 6).tolist()} want {np.round(want, 6).tolist()}")
        if check_geom and geom != model.geom.get(to):
            ctx.fail(oracle, "geometry-name", f"get({to!r}, {frm!r}) geometry {geom!r} != {model.geom.get(to)!r}")
        # a careless caller: the answer is scribbled on (when the library lets that happen). Later answers must not change.
        out = got.copy()
        try:
            got[0, 3] += 1.0
            got[1, 1] *= -1.0
            ctx.count("fault:answer-edited-in-place")
        except (ValueError, TypeError):
            ctx.count("probe:answer-is-read-only")
        return out

    def _do(self, graph, model, op, ctx):
        k = op["op"]
        if k == "update":
            self._apply_model(model, op)  # raises Inapplicable before touching the graph
            kw = update_kwargs(op)
            graph.update(frame_to=op["to"], frame_from=op["frm"], **kw)
            # the caller re-uses its arrays afterwards: the graph must have taken its own copy
            for v in kw.values():
                if isinstance(v, np.ndarray) and v.size:
                    v += 0.5
            ctx.count("fault:argument-edited-after-update")
            return op["how"]
        if k == "setitem":
            self._apply_model(model, op)
            arg = np.array(op["matrix"], dtype=np.float64)
            graph[op["to"]] = arg
            arg += 0.5
            return "ok"
        if k == "remove_node":
            if op["node"] not in model.nodes or op["node"] == model.base:
                raise Inapplicable()
            self._apply_model(model, op)
            changed = graph.transforms.remove_node(op["node"])
            return f"changed={bool(changed)}"
        if k == "base":
            self._apply_model(model, op)
            graph.base_frame = op["node"]
            return "ok"
        if k == "get":
            n = 0
            for frm, to in op["pairs"]:
                if not model.connected(frm, to):
                    continue
                self._cmp(ctx, graph, model, frm, to)
                n += 1
            if n == 0:
                raise Inapplicable()
            return f"n={n}"
        if k == "getitem":
            node = op["node"]
            if not model.connected(node, model.base):
                raise Inapplicable()
            want = model.T(model.base, node)
            got, geom = graph[node]
            bad = compare.close(got, want, self._tol(want, model))
            ctx.count("check:getitem")
            if bad or geom != model.geom.get(node):
                ctx.fail("model", "getitem", f"graph[{node!r}]: {bad} geometry {geom!r}")
            return "ok"
        if k == "get_disconnected":
            frm, to = op["pair"]
            if frm not in model.nodes or to not in model.nodes or model.connected(frm, to):
                raise Inapplicable()
            ctx.count("fault:get_disconnected")
            try:
                graph.get(to, frm)
                out = "returned"
            except (KeyboardInterrupt, SystemExit):
                raise
            except Exception as e:
                out = type(e).__name__
                ctx.count("exc:" + out)
            return out
        if k == "get_unknown":
            u, other = op["unknown"], op.get("other")
            if u in model.nodes or (op["form"] in ("to", "from") and other not in model.nodes):
                raise Inapplicable()
            ctx.count("fault:get_unknown")
            try:
                if op["form"] == "to":
                    graph.get(u, other)
                elif op["form"] == "from":
                    graph.get(other, u)
                elif op["form"] == "both":
                    graph.get(u, u)
                elif op["form"] == "getitem":
                    graph[u]
                else:
                    if u in graph:
                        ctx.fail("model", "contains", f"{u!r} in graph although no such frame exists")
                out = "returned"
            except (KeyboardInterrupt, SystemExit):
                raise
            except Exception as e:
                out = type(e).__name__
                ctx.count("exc:" + out)
            # whatever the answer was, asking is not editing: the graph holds exactly the frames it held
            self._nodes(graph, model, ctx)
            return out
        if k == "bad_setitem":
            ctx.count("fault:bad_setitem")
            try:
                graph[op["node"]] = np.zeros(op["shape"])
                # accepted: not something the property speaks about; we can no longer model it
                raise Inapplicable()
            except (ValueError, TypeError, IndexError) as e:
                ctx.count("exc:" + type(e).__name__)
                return type(e).__name__
        if k == "flatten":
            if not all(model.connected(n, model.base) for n in model.nodes) or model.base not in model.nodes:
                # documented to raise for disconnected frames: outcome recorded only
                try:
                    graph.to_flattened()
                    return "returned-disconnected"
                except Exception as e:
                    ctx.count("exc:" + type(e).__name__)
                    return type(e).__name__
            flat = graph.to_flattened()
            want_nodes = [n for n in model.nodes if n != model.base]
            if sorted(flat) != sorted(want_nodes):
                ctx.fail("model", "flatten-nodes", f"{sorted(flat)} != {sorted(want_nodes)}")
            for n in want_nodes:
                want = model.T(model.base, n)
                bad = compare.close(np.array(flat[n]["transform"]), want, self._tol(want, model))
                ctx.count("check:flatten")
                if bad or flat[n]["geometry"] != model.geom.get(n):
                    ctx.fail("model", "flatten", f"node {n!r}: {bad} geometry {flat[n]['geometry']!r}")
            return f"n={len(flat)}"
        if k == "edgelist":
            self._edgelist(graph, model, ctx)
            return "ok"
        if k == "copy":
            g2 = graph.copy()
            # copy keeps repair setting at its default; keep ours
            g2.repair_rigid = graph.repair_rigid
            return (g2, "ok")
        if k == "remove_geometries":
            self._apply_model(model, op)
            names = op["names"]
            graph.remove_geometries(names[0] if op.get("as_str") else names)
            return "ok"
        if k == "clear":
            self._apply_model(model, op)
            graph.clear()
            return "ok"
        if k == "nodes":
            self._nodes(graph, model, ctx)
            return "ok"
        raise Inapplicable()

    def _nodes(self, graph, model, ctx):
        ctx.count("check:nodes")
        got = sorted(graph.nodes)
        if got != sorted(model.nodes):
            ctx.fail("model", "nodes", f"{got} != {sorted(model.nodes)}")
        ng = sorted(graph.nodes_geometry)
        if ng != sorted(model.geom):
            ctx.fail("model", "nodes_geometry", f"{ng} != {sorted(model.geom)}")
        gn = {k: sorted(v) for k, v in graph.geometry_nodes.items() if len(v)}
        want = {}
        for n, g in model.geom.items():
            want.setdefault(g, []).append(n)
        want = {k: sorted(v) for k, v in want.items()}
        if gn != want:
            ctx.fail("model", "geometry_nodes", f"{gn} != {want}")
        # the tree as the forest itself reports it (what apply_transform, subscene, the glTF export walk): current edges only
        forest = graph.transforms
        got_parents = {repr(c): repr(p) for c, p in forest.parents.items()}
        want_parents = {repr(c): repr(p) for c, p in model.parent.items()}
        if got_parents != want_parents:
            ctx.fail("model", "parents", f"{got_parents} != {want_parents}")
        got_children = {repr(p): sorted(repr(c) for c in cs) for p, cs in forest.children.items() if len(cs)}
        want_children = {}
        for c, p in model.parent.items():
            want_children.setdefault(repr(p), []).append(repr(c))
        want_children = {p: sorted(cs) for p, cs in want_children.items()}
        if got_children != want_children:
            ctx.fail("model", "children", f"{got_children} != {want_children}")
        for n in model.nodes:
            got_s = sorted(repr(x) for x in forest.successors(n))
            want_s = sorted(repr(x) for x in model.nodes if x == n or model.is_ancestor(n, x))
            if got_s != want_s:
                ctx.fail("model", "successors", f"successors({n!r}) = {got_s} != {want_s}")

    def _edgelist(self, graph, model, ctx):
        from trimesh.scene.transforms import SceneGraph

        edges = graph.to_edgelist()
        ctx.count("check:edgelist")
        # exported edges are exactly the current edges
        got_edges = sorted(((e[0], e[1]) for e in edges), key=repr)  # (an export may hold anything: compared, never trusted)
        want_edges = sorted(((p, c) for c, p in model.parent.items()), key=repr)
        if got_edges != want_edges:
            ctx.fail("model", "edgelist-edges", f"exported {got_edges} != current {want_edges}")
        g2 = SceneGraph(base_frame=graph.base_frame)
        g2.repair_rigid = graph.repair_rigid
        if len(edges) and len(edges) % 2:
            # the list is loaded into a graph that already holds these edges with other matrices (an older snapshot): what is loaded counts
            stale = [(e[0], e[1], dict(e[2], matrix=(np.eye(4) + np.diag([0.0, 0.0, 0.0, 0.0])).tolist() if i % 2 else mx.hom(None, [9.0, -9.0, 9.0]).tolist())) if len(e) > 2 and isinstance(e[2], dict) else e for i, e in enumerate(edges)]
            g2.from_edgelist(stale, strict=True)
            ctx.count("probe:edgelist-loaded-over-older-edges")
        g2.from_edgelist(edges, strict=True)
        in_edges = set(model.parent) | set(model.parent.values())
        for a in model.nodes:
            for b in model.nodes:
                if a in in_edges and b in in_edges and model.connected(a, b):
                    # an edge list carries a node's geometry on its incoming edge: a root's cannot be exported
                    self._cmp(ctx, g2, model, a, b, oracle="rebuild", check_geom=b in model.parent)

    def _check_some(self, graph, model, op, ctx):
        """After every op: the frames the op touched, against every connected frame."""
        touched = [op.get("to"), op.get("node")]
        touched = [t for t in touched if t in model.nodes]
        for t in touched[:1]:
            others = [n for n in model.nodes if model.connected(n, t)]
            # bounded: at most 4 partners, chosen by the op's own salt (no PRNG draw here)
            salt = int(op.get("rs", 0))
            for i in range(min(4, len(others))):
                o = others[(salt + i * 7) % len(others)]
                if (salt >> i) & 1:
                    self._cmp(ctx, graph, model, o, t, oracle="after-op")
                else:
                    self._cmp(ctx, graph, model, t, o, oracle="after-op")

    def _final(self, graph, model, program, ctx):
        nodes = list(model.nodes)
        got = {}
        for a in nodes:
            for b in nodes:
                if model.connected(a, b):
                    got[(a, b)] = self._cmp(ctx, graph, model, a, b, oracle="final")
        # explicit consequences
        for (a, b), M in got.items():
            if a == b:
                if compare.close(M, np.eye(4), 1e-9):
                    ctx.fail("law", "identity", f"T({a},{a}) != I")
                continue
            inv = got[(b, a)]
            tol = self._tol(M, model) * max(1.0, float(np.abs(inv).max())) * 10
            if compare.close(M @ inv, np.eye(4), tol):
                ctx.fail("law", "inverse", f"T({a},{b}) . T({b},{a}) != I")
        salt = int(program.get("seed", 0))
        keys = sorted(got)
        for i in range(min(20, len(keys))):
            a, b = keys[(salt + i * 13) % len(keys)]
            for c in nodes:
                if (b, c) in got:
                    want = got[(a, b)] @ got[(b, c)]
                    tol = self._tol(want, model) * 10 * max(1.0, float(np.abs(got[(a, b)]).max()))
                    ctx.count("check:composition")
                    if compare.close(got[(a, c)], want, tol):
                        ctx.fail("law", "composition", f"T({a},{c}) != T({a},{b}) . T({b},{c})")
        self._nodes(graph, model, ctx)
        if len(model.parent):
            self._edgelist(graph, model, ctx)
        ctx.event("final", len(got))

    # ------------------------------------------------------------------ shrinking
    def simplify_op(self, op):
        out = []
        if op["op"] == "update" and op.get("how") != "matrix":
            o = dict(op)
            M = model_matrix(op)
            for k in ("quaternion", "axis", "angle", "translation"):
                o.pop(k, None)
            o.update({"how": "matrix", "cls": "converted", "matrix": M.tolist()})
            out.append(o)
        if op["op"] in ("update", "setitem") and op.get("how", "matrix") == "matrix":
            for M in ([[1, 0, 0, 1], [0, 1, 0, 0], [0, 0, 1, 0], [0, 0, 0, 1]], [[1, 0, 0, 0], [0, 1, 0, 2], [0, 0, 1, 0], [0, 0, 0, 1]], [[2, 0, 0, 0], [0, 2, 0, 0], [0, 0, 2, 0], [0, 0, 0, 1]]):
                o = dict(op)
                o["matrix"] = [[float(x) for x in r] for r in M]
                o["cls"] = "simple"
                out.append(o)
            if "geometry" in op:
                o = dict(op)
                o.pop("geometry")
                out.append(o)
        if op["op"] == "get" and len(op["pairs"]) > 1:
            for p in op["pairs"]:
                o = dict(op)
                o["pairs"] = [p]
                out.append(o)
        return out

    def simplify_program(self, program):
        out = []
        cfg = program["config"]
        if cfg.get("via_scene"):
            p = dict(program)
            p["config"] = dict(cfg, via_scene=False)
            out.append(p)
        if cfg.get("repair_rigid", 1e-5) is None:
            p = dict(program)
            p["config"] = dict(cfg, repair_rigid=1e-5)
            out.append(p)
        return out


def _mut_no_hash_reset():
    from trimesh.scene.transforms import EnforcedForest
    orig = EnforcedForest.add_edge

    def add_edge(self, u, v, **kwargs):
        keep = getattr(self, "_hash", None)
        r = orig(self, u, v, **kwargs)
        self._hash = keep
        return r

    EnforcedForest.add_edge = add_edge
    return lambda: setattr(EnforcedForest, "add_edge", orig)


def _mut_remove_keeps_paths():
    from trimesh.scene.transforms import EnforcedForest
    orig = EnforcedForest.remove_node

    def remove_node(self, u):
        keep = self._cache
        r = orig(self, u)
        self._cache = keep
        return r

    EnforcedForest.remove_node = remove_node
    return lambda: setattr(EnforcedForest, "remove_node", orig)


def _mut_translation_first():
    from trimesh.scene import transforms as T
    orig = T.kwargs_to_matrix

    def k2m(matrix=None, quaternion=None, translation=None, axis=None, angle=None, **kwargs):
        M = orig(matrix=matrix, quaternion=quaternion, translation=None, axis=axis, angle=angle)
        if translation is not None and matrix is None:
            M[:3, 3] += M[:3, :3] @ np.asarray(translation)
        return M

    T.kwargs_to_matrix = k2m
    return lambda: setattr(T, "kwargs_to_matrix", orig)


def _mut_multidot_reversed():
    from trimesh import util
    orig = util.multi_dot
    util.multi_dot = lambda arrays: orig(list(arrays)[::-1])
    return lambda: setattr(util, "multi_dot", orig)


C09.MUTANTS = {"add_edge-keeps-hash": _mut_no_hash_reset, "remove_node-keeps-path-cache": _mut_remove_keeps_paths, "translation-in-rotated-frame": _mut_translation_first, "product-order-reversed": _mut_multidot_reversed}

WORLD = C09()
