"""
C14 - paths rebuild the same regions from segments in any order.

One drawing (disjoint / nested simple closed curves: polygons, rectangles with holes, islands,
circles, stadiums), several *presentations* of it (each curve split into polylines at seeded
vertices, entities permuted, a subset reversed, vertices permuted / duplicated, process on or off),
and for every presentation a history of checked reads, transforms, merge_vertices, copies, cache
drops, in-place entity reversals and export -> import through DXF / SVG / dict.
Oracle: analytic region model (own shoelace) for polygonal drawings; invariance across presentations
and the similarity law for drawings with arcs; coherence with a freshly built path.
"""
import io
import math

import numpy as np

from ..core.engine import Inapplicable, seed_lib_rng
from ..core.world import World, pick, swarm_weights
from .c01 import same

DRAWINGS = ["square", "pentagon", "square_hole", "two_apart", "island", "three_nested", "circle", "circle_in_square", "stadium", "square_and_circle", "concave", "c_slot", "dshape", "lens", "plate_d_and_lens", "c_slot_island", "thin_c_around_bore", "thin_c_and_block", "two_frames_island", "five_frames", "keyhole", "plate_keyhole", "triangles"]
READS = ["paths", "discrete", "polygons_closed", "polygons_full", "area", "length", "is_closed", "body_count", "root", "enclosure_directed", "bounds", "extents", "identifier_hash", "enclosure_shell", "split"]
OPS = ["read", "transform", "merge_vertices", "copy", "cache_clear", "reverse_entity", "roundtrip", "read_all", "process"]


def shoelace(P):
    P = np.asarray(P, dtype=float)
    x, y = P[:, 0], P[:, 1]
    return 0.5 * float(np.dot(x, np.roll(y, -1)) - np.dot(y, np.roll(x, -1)))


def perimeter(P):
    P = np.asarray(P, dtype=float)
    return float(np.linalg.norm(P - np.roll(P, -1, axis=0), axis=1).sum())


def _ngon(c, r, n, phase, jit, rs):
    a = phase + np.arange(n) * 2 * math.pi / n
    P = np.column_stack([c[0] + r * np.cos(a), c[1] + r * np.sin(a)])
    return P + rs.uniform(-jit, jit, P.shape)


def make_drawing(name, salt):
    """-> list of curves: {"kind": "poly", "pts": (n,2)} | {"kind": "circle", "c", "r"} | {"kind": "stadium", "c", "w", "r"}, with "depth"."""
    rs = np.random.RandomState(salt % (2**32))
    j = 0.04
    sq = lambda c, h, depth: {"kind": "poly", "pts": np.array([[c[0] - h, c[1] - h], [c[0] + h, c[1] - h], [c[0] + h, c[1] + h], [c[0] - h, c[1] + h]]) + rs.uniform(-j, j, (4, 2)), "depth": depth}  # noqa: E731
    if name == "square":
        return [sq((0, 0), 1.0, 0)]
    if name == "pentagon":
        return [{"kind": "poly", "pts": _ngon((0.3, -0.2), 1.3, 5 + salt % 4, 0.3, j, rs), "depth": 0}]
    if name == "concave":
        P = np.array([[0, 0], [3, 0], [3, 2], [2, 2], [2, 1], [1, 1], [1, 2], [0, 2]], dtype=float) + rs.uniform(-j, j, (8, 2))
        return [{"kind": "poly", "pts": P, "depth": 0}]
    if name == "square_hole":
        return [sq((0, 0), 2.0, 0), sq((0.3, -0.2), 0.8, 1)]
    if name == "two_apart":
        return [sq((0, 0), 1.0, 0), {"kind": "poly", "pts": _ngon((4.0, 0.5), 1.2, 6, 0.1, j, rs), "depth": 0}]
    if name == "island":
        return [sq((0, 0), 3.0, 0), sq((0, 0), 2.0, 1), sq((0.1, 0.1), 1.0, 2)]
    if name == "three_nested":
        return [sq((0, 0), 4.0, 0), sq((-1.8, 0), 1.2, 1), sq((1.8, 0.2), 1.3, 1), {"kind": "poly", "pts": _ngon((1.8, 0.2), 0.6, 5, 0.2, 0.01, rs), "depth": 2}]
    if name == "circle":
        return [{"kind": "circle", "c": np.array([0.4, -0.3]) + rs.uniform(-j, j, 2), "r": 1.25, "depth": 0}]
    if name == "circle_in_square":
        return [sq((0, 0), 2.5, 0), {"kind": "circle", "c": np.array([0.2, 0.1]), "r": 1.1, "depth": 1}]
    if name == "square_and_circle":
        return [sq((0, 0), 1.0, 0), {"kind": "circle", "c": np.array([4.0, 0.0]), "r": 1.0, "depth": 0}]
    if name == "stadium":
        return [{"kind": "stadium", "c": np.array([0.0, 0.0]), "w": 2.0, "r": 0.75, "depth": 0}]
    cshape = np.array([[-2, -2], [2, -2], [2, -1], [-1, -1], [-1, 1], [2, 1], [2, 2], [-2, 2]], dtype=float)
    if name == "c_slot":
        # a C-shaped hole wrapping around a sibling hole: the C's centroid lies outside the C and inside neither
        return [sq((0, 0), 4.0, 0), {"kind": "poly", "pts": cshape + rs.uniform(-j, j, cshape.shape), "depth": 1}, sq((0.6, 0.0), 0.5, 1)]
    if name == "c_slot_island":
        return [{"kind": "poly", "pts": cshape * 1.5 + rs.uniform(-j, j, cshape.shape), "depth": 0}, sq((0.9, 0.0), 0.6, 0), sq((6.5, 0.0), 1.0, 0)]
    # a thin C whose centroid falls inside a sibling of larger area that it wraps around but does not enclose
    o, i_ = 1.6, 1.3
    thin_c = np.array([[-o, -o], [o, -o], [o, -0.4], [i_, -0.4], [i_, -i_], [-i_, -i_], [-i_, i_], [i_, i_], [i_, 0.4], [o, 0.4], [o, o], [-o, o]], dtype=float)
    if name == "thin_c_around_bore":
        return [sq((0, 0), 4.0, 0), {"kind": "poly", "pts": thin_c + rs.uniform(-0.01, 0.01, thin_c.shape), "depth": 1}, sq((0.0, 0.0), 1.0, 1)]
    if name == "thin_c_and_block":
        return [{"kind": "poly", "pts": thin_c + rs.uniform(-0.01, 0.01, thin_c.shape), "depth": 0}, sq((0.0, 0.0), 1.0, 0)]
    if name == "dshape":
        return [{"kind": "dshape", "c": np.array([0.3, 0.2]), "r": 1.2, "depth": 0}]
    if name == "lens":
        return [{"kind": "lens", "c": np.array([0.0, 0.0]), "r": 1.0, "depth": 0}]
    if name == "plate_d_and_lens":
        return [sq((0, 0), 5.0, 0), {"kind": "dshape", "c": np.array([-2.0, 0.5]), "r": 1.2, "depth": 1}, {"kind": "lens", "c": np.array([2.2, -0.5]), "r": 1.0, "depth": 1}]
    if name == "two_frames_island":
        # two frames side by side, one of them with an island: holes must go to the shell that contains them, not to every shell one level up
        return [sq((-5, 0), 3.0, 0), sq((-5, 0), 2.0, 1), sq((-4.9, 0.1), 1.0, 2), sq((5, 0), 3.0, 0), sq((5.2, 0), 1.7, 1)]
    if name == "five_frames":
        out = []
        for i in range(5):
            cx = -16.0 + 8.0 * i
            out += [sq((cx, 0), 3.0, 0), sq((cx + 0.1 * i, 0), 1.0 + 0.2 * i, 1)]
        return out + [sq((-16.0, 0.05), 0.4, 2)]
    if name == "triangles":
        # the smallest closed polylines: three corners (four rows, three distinct points)
        tri = lambda c, r, phase, depth: {"kind": "poly", "pts": _ngon(c, r, 3, phase, j, rs), "depth": depth}  # noqa: E731
        return [sq((0, 0), 5.0, 0), tri((-1.5, 0.5), 1.6, 0.4, 1), tri((9.0, 0.0), 2.0, 1.1, 0)]
    if name == "keyhole":
        # a 270 degree arc closed by its chord
        return [{"kind": "keyhole", "c": np.array([0.2, -0.1]), "r": 1.2, "depth": 0}]
    if name == "plate_keyhole":
        return [sq((0, 0), 4.0, 0), {"kind": "keyhole", "c": np.array([0.5, 0.3]), "r": 1.2, "depth": 1}]
    raise ValueError(name)


KEYHOLE = (-0.75 * math.pi + 0.37, 0.75 * math.pi + 0.37)  # 270 degrees; 4.712 rad is not a multiple of the 0.08 rad segment angle
DSHAPE = (-1.03, 2.2)
LENS = (0.2, 3.3)


def _mid(a0, a1, t):
    return a0 + t * (a1 - a0)


def _arc_in_pieces(c, span, pr, V, ents, base):
    """An arc closed by its chord, the arc cut into 1-3 sub-arcs at equal angles, each with its middle control point where the
    presentation puts it. The exact length of the curve does not depend on the cutting; its discretisation (so its area) does."""
    n = int(pr.get("arc_pieces", 1))
    t = pr.get("arc_mid", 0.5)
    cuts = np.linspace(span[0], span[1], n + 1)
    angs = []
    for a, b in zip(cuts[:-1], cuts[1:]):
        angs += [a, _mid(a, b, t)]
    angs.append(cuts[-1])
    angs = np.array(angs)
    V.extend((c["c"] + c["r"] * np.column_stack([np.cos(angs), np.sin(angs)])).tolist())
    for i in range(n):
        ents.append(("Arc", [base + 2 * i, base + 2 * i + 1, base + 2 * i + 2]))
    ents.append(("Line", [base + 2 * n, base]))
    return base


def present(curves, pr):
    """One presentation: vertices (n,2) and entity descriptions, from a JSON presentation recipe."""
    from trimesh.path.entities import Arc, Line

    rs = np.random.RandomState(pr["salt"] % (2**32))
    V, ents = [], []
    for ci, c in enumerate(curves):
        base = len(V)
        if c["kind"] == "poly":
            P = c["pts"]
            n = len(P)
            V.extend(P.tolist())
            k = 1 + int(rs.randint(0, min(n, pr.get("max_split", 3))))
            cuts = sorted(rs.choice(n, k, replace=False).tolist())
            if k == 1:
                s = cuts[0]
                idx = [(s + i) % n for i in range(n + 1)]
                ents.append(("Line", [base + i for i in idx]))
            else:
                for a, b in zip(cuts, cuts[1:] + [cuts[0] + n]):
                    ents.append(("Line", [base + (i % n) for i in range(a, b + 1)]))
        elif c["kind"] == "circle":
            # fixed splitting (discretisation of an arc depends on its span): 3 arcs through 6 points, or one closed arc
            if pr.get("closed_arc"):
                ang = np.array([0.0, 2.0, 4.0]) + 0.3
                V.extend((c["c"] + c["r"] * np.column_stack([np.cos(ang), np.sin(ang)])).tolist())
                ents.append(("ArcClosed", [base, base + 1, base + 2]))
            else:
                ang = np.arange(6) * math.pi / 3 + 0.3
                V.extend((c["c"] + c["r"] * np.column_stack([np.cos(ang), np.sin(ang)])).tolist())
                for a in (0, 2, 4):
                    ents.append(("Arc", [base + a, base + a + 1, base + (a + 2) % 6]))
        elif c["kind"] == "dshape":
            # an arc whose end points are joined directly by a two-point chord: a loop of exactly two entities
            # span 3.23 rad: not a multiple of the 0.08 rad segment angle (no knife-edge segment count); the middle control point may sit anywhere on the arc
            base = _arc_in_pieces(c, DSHAPE, pr, V, ents, base)
        elif c["kind"] == "keyhole":
            # more than 180 degrees: with an off-centre control point one of the two sections alone exceeds 180 degrees
            base = _arc_in_pieces(c, KEYHOLE, pr, V, ents, base)
        elif c["kind"] == "lens":
            # a full circle made of exactly two arcs sharing both end points
            t = pr.get("arc_mid", 0.5)
            ang = np.array([LENS[0], _mid(LENS[0], LENS[1], t), LENS[1], _mid(LENS[1], LENS[0] + 2 * math.pi, t)])
            V.extend((c["c"] + c["r"] * np.column_stack([np.cos(ang), np.sin(ang)])).tolist())
            ents += [("Arc", [base, base + 1, base + 2]), ("Arc", [base + 2, base + 3, base])]
        else:
            w, r, cx, cy = c["w"], c["r"], c["c"][0], c["c"][1]
            P = [[cx - w / 2, cy - r], [cx + w / 2, cy - r], [cx + w / 2 + r, cy], [cx + w / 2, cy + r], [cx - w / 2, cy + r], [cx - w / 2 - r, cy]]
            V.extend(P)
            ents += [("Line", [base, base + 1]), ("Arc", [base + 1, base + 2, base + 3]), ("Line", [base + 3, base + 4]), ("Arc", [base + 4, base + 5, base])]
    V = np.array(V, dtype=float)
    # entity order and direction
    order = rs.permutation(len(ents)) if pr.get("permute", True) else np.arange(len(ents))
    ents = [ents[i] for i in order]
    ents = [(t, p[::-1]) if rs.uniform() < pr.get("reverse_p", 0.5) else (t, p) for t, p in ents]
    # vertex permutation and duplication
    perm = rs.permutation(len(V)) if pr.get("permute_vertices") else np.arange(len(V))
    inv = np.argsort(perm)
    V2 = V[perm]
    ents = [(t, [int(inv[i]) for i in p]) for t, p in ents]
    if pr.get("dup_vertices"):
        # every polyline end gets its own copy of the vertex (the path constructor must merge them: process=True)
        extra = []
        new = []
        for t, p in ents:
            p = list(p)
            if t == "Line":
                extra.append(V2[p[0]])
                p[0] = len(V2) + len(extra) - 1
            new.append((t, p))
        ents = new
        V2 = np.vstack([V2] + [np.array(extra)]) if extra else V2
    if pr.get("spare_vertex"):
        # a vertex nothing refers to, ahead of all the others (what is left behind when entities are removed)
        V2 = np.vstack([[[37.5, -41.25]], V2])
        ents = [(t, [int(i) + 1 for i in p]) for t, p in ents]
    objs = []
    for t, p in ents:
        if t == "Line":
            objs.append(Line(p))
        elif t == "ArcClosed":
            objs.append(Arc(p, closed=True))
        else:
            objs.append(Arc(p))
    return V2, objs


def present_dxf(curves, pr):
    """The same drawing as a hand-written DXF: one LWPOLYLINE per curve, arcs as bulges (tan of a quarter of the included angle,
    negative clockwise), seeded start vertex, direction and closing style. Another program's way of presenting the boundary."""
    rs = np.random.RandomState(pr["salt"] % (2**32))
    out = ["0\nSECTION\n2\nHEADER\n9\n$INSUNITS\n70\n1\n0\nENDSEC\n0\nSECTION\n2\nENTITIES\n"]

    def on(c, a):
        return c["c"] + c["r"] * np.array([math.cos(a), math.sin(a)])

    order = rs.permutation(len(curves)) if pr.get("permute", True) else np.arange(len(curves))
    for ci in order:
        c = curves[int(ci)]
        if c["kind"] == "poly":
            P = [tuple(x) for x in c["pts"]]
            B = [0.0] * len(P)
        elif c["kind"] == "circle":
            if pr.get("closed_arc"):
                out.append("0\nCIRCLE\n8\n0\n10\n%r\n20\n%r\n40\n%r\n" % (float(c["c"][0]), float(c["c"][1]), float(c["r"])))
                continue
            P, B = [tuple(on(c, 0.3)), tuple(on(c, 0.3 + math.pi))], [1.0, 1.0]
        elif c["kind"] in ("dshape", "keyhole"):
            a0, a1 = DSHAPE if c["kind"] == "dshape" else KEYHOLE
            P, B = [tuple(on(c, a0)), tuple(on(c, a1))], [math.tan((a1 - a0) / 4), 0.0]
        elif c["kind"] == "lens":
            P, B = [tuple(on(c, LENS[0])), tuple(on(c, LENS[1]))], [math.tan((LENS[1] - LENS[0]) / 4), math.tan((LENS[0] + 2 * math.pi - LENS[1]) / 4)]
        else:
            w, r, cx, cy = c["w"], c["r"], c["c"][0], c["c"][1]
            P, B = [(cx - w / 2, cy - r), (cx + w / 2, cy - r), (cx + w / 2, cy + r), (cx - w / 2, cy + r)], [0.0, 1.0, 0.0, 1.0]
        n = len(P)
        k = int(rs.randint(0, n))
        P, B = P[k:] + P[:k], B[k:] + B[:k]
        if rs.uniform() < pr.get("reverse_p", 0.5):
            P = P[::-1]
            B = [-B[n - 2 - j] for j in range(n - 1)] + [-B[n - 1]]
        explicit = bool(pr.get("dup_vertices")) and all(b == 0.0 for b in B[-1:])
        if explicit:
            P, B = P + [P[0]], B + [0.0]
        # group 70 is a bit field: 1 = closed, 128 = generate the line type pattern along the whole polyline (harmless here)
        plinegen = 128 if rs.uniform() < 0.4 else 0
        out.append("0\nLWPOLYLINE\n8\n0\n90\n%d\n70\n%d\n" % (len(P), (0 if explicit else 1) + plinegen))
        for (x, y), b in zip(P, B):
            out.append("10\n%r\n20\n%r\n" % (float(x), float(y)) + ("42\n%r\n" % float(b) if b else ""))
    out.append("0\nENDSEC\n0\nEOF\n")
    return "".join(out).encode("ascii")


def model_values(curves, M=None):
    """Analytic values of the drawing under the planar similarity / affine M (3x3) for polygonal drawings."""
    det = 1.0 if M is None else float(np.linalg.det(M[:2, :2]))
    polys = all(c["kind"] == "poly" for c in curves)
    out = {"n_curves": len(curves), "n_shells": sum(1 for c in curves if c["depth"] % 2 == 0), "polygonal": polys}
    if polys:
        def tp(P):
            return P if M is None else P @ M[:2, :2].T + M[:2, 2]
        out["area"] = sum(abs(shoelace(tp(c["pts"]))) * (1 if c["depth"] % 2 == 0 else -1) for c in curves)
        out["length"] = sum(perimeter(tp(c["pts"])) for c in curves)
        out["curve_areas"] = sorted(round(abs(shoelace(tp(c["pts"]))), 9) for c in curves)
        allP = np.vstack([tp(c["pts"]) for c in curves])
        out["bounds"] = np.array([allP.min(axis=0), allP.max(axis=0)])
    out["det"] = det
    return out


def signature(path):
    """(number of full polygons, sorted (exterior area, holes) pairs)"""
    full = path.polygons_full
    return sorted((round(float(__import__("shapely").geometry.Polygon(p.exterior).area), 6), len(p.interiors)) for p in full)


class C14(World):
    ID = "C14"
    RUNS = {"quick": 20000, "thorough": 800000}
    WALL = {"quick": 110.0, "thorough": 1700.0}
    BLOCK = 20
    RULE = (
        "one evaluation = one drawing (11 families of disjoint / nested simple closed curves with lines and arcs) in 2-4 presentations (seeded splitting, entity order and direction, vertex "
        "permutation / duplication, process on or off), each with a history of 0-5 ops (checked reads, rigid / similarity / mirror / anisotropic transforms, merge_vertices, copy, cache drop, "
        "in-place entity reversal, DXF / SVG / dict round trip); distinct_nontrivial counts distinct (drawing, presentation class, op kind x class, memoised-before?) tuples checked"
    )
    SIM_UNIT = "path operations and checked reads executed"
    LEVEL_TEXT = (
        "Seeded search over presentation schedules and histories of the real Path2D: every presentation of one drawing must give the same polygon set, nesting, area and length (exact analytic "
        "values for polygonal drawings; mutual agreement and the similarity law for drawings with arcs), also after reads-then-transforms, merge_vertices, copies, cache drops, in-place reversal "
        "of entities and export -> import through DXF, SVG and the dict form, and must always agree with a path freshly built from its current vertices and entities. Exploration, not proof."
    )
    LEVEL_NOTE = "Trusted: own shoelace / perimeter model, shapely for polygon areas of the observed regions. Arcs keep a fixed splitting (their discretisation depends on the span); only order, direction and history vary for them."
    COMPONENTS = {
        "real": ["Path2D", "path.traversal (closed_paths, discretize_path)", "path.polygons (paths_to_polygons, enclosure_tree)", "entities Line/Arc", "arc.discretize_arc", "DXF / SVG / dict exchange", "shapely, networkx"],
        "simulated": ["the delivery schedule of the boundary (splitting, order, direction)", "the history of reads and edits", "np.random / random (seeded)"],
        "stubbed": [],
    }
    ASSUMPTIONS = ["curves are separated by >= 0.4 so merge_vertices cannot fuse them", "Arc.length is checked for invariance only (see DESIGN)"]

    def swarm(self, rng):
        return {"drawing": rng.choice(DRAWINGS), "n_present": rng.choice([2, 2, 3, 4]), "weights": swarm_weights(rng, OPS, keep_p=0.7, always=("read",)), "n_ops": rng.choice([0, 1, 2, 3, 5] if self.TIER != "thorough" else [1, 2, 3, 5, 8, 12]),
                "reads": sorted(rng.sample(READS, rng.choice([3, 6, len(READS)])))}

    def generate(self, rng, cfg):
        ops = [{"op": "drawing", "name": cfg["drawing"], "salt": rng.randrange(2**31), "rs": rng.randrange(2**31)}]
        for _ in range(cfg["n_present"]):
            dup = rng.random() < 0.25
            ops.append({"op": "present", "salt": rng.randrange(2**31), "max_split": rng.choice([1, 2, 3, 5]), "permute": rng.random() < 0.85, "reverse_p": rng.choice([0.0, 0.5, 1.0]),
                        "permute_vertices": rng.random() < 0.5, "dup_vertices": dup, "process": rng.random() < (0.6 if dup else 0.5), "closed_arc": rng.random() < 0.3, "rs": rng.randrange(2**31),
                        "arc_mid": rng.choice([0.5, 0.5, 0.5, 0.05, 0.15, 0.3, 0.85, 0.95]), "arc_pieces": rng.choice([1, 1, 2, 3]), "spare_vertex": rng.random() < 0.2, "via": "dxf_bulge" if rng.random() < 0.15 else "entities"})
            for _ in range(cfg["n_ops"]):
                k = pick(rng, cfg["weights"])
                op = {"op": k, "rs": rng.randrange(2**31), "i": rng.randrange(1000)}
                if k == "read":
                    op["names"] = rng.sample(cfg["reads"], min(len(cfg["reads"]), rng.randint(1, 4)))
                if k == "transform":
                    op["cls"] = rng.choice(["translation", "rigid", "similarity", "mirror", "uniform_scale", "aniso", "shrink", "nudge"])
                    op["tiny"] = rng.choice([4e-5, 1e-5, 3e-4, 2e-6])
                    op.update({"theta": round(rng.uniform(0.2, 2.9), 4), "s": round(rng.choice([rng.uniform(0.4, 0.8), rng.uniform(1.3, 2.5)]), 3), "s2": round(rng.uniform(1.4, 2.2), 3), "t": [round(rng.uniform(-2, 2), 3), round(rng.uniform(-2, 2), 3)]})
                if k == "roundtrip":
                    op["fmt"] = rng.choice(["dxf", "svg", "dict"])
                ops.append(op)
            ops.append({"op": "read_all", "rs": rng.randrange(2**31)})
        return {"config": cfg, "ops": ops}

    # ------------------------------------------------------------------ execution
    @staticmethod
    def _matrix(op, polygonal):
        cls = op["cls"]
        th, s, t = op["theta"], op["s"], op["t"]
        R = np.array([[math.cos(th), -math.sin(th)], [math.sin(th), math.cos(th)]])
        if cls == "translation":
            A = np.eye(2)
        elif cls == "rigid":
            A = R
        elif cls == "similarity":
            A = s * R
        elif cls == "uniform_scale":
            A = s * np.eye(2)
        elif cls == "shrink":
            # a drawing in other units: a similarity all the same (absolute tolerances must not eat it)
            A = float(op.get("tiny", 4e-5)) * R
        elif cls == "nudge":
            # a few millionths: a turn of 5 microradians and a shift of 8 millionths of a unit (a transform like any other)
            A = np.array([[math.cos(5e-6), -math.sin(5e-6)], [math.sin(5e-6), math.cos(5e-6)]])
            t = [8e-6, -6e-6]
        elif cls == "mirror":
            A = R @ np.diag([1.0, -1.0])
        else:
            if not polygonal:
                raise Inapplicable()  # arcs are not covariant under an anisotropic map; the statement does not ask for it
            A = R @ np.diag([s, op["s2"]])
        M = np.eye(3)
        M[:2, :2] = A
        M[:2, 2] = t
        return M

    def execute(self, program, ctx):
        import trimesh

        curves = None
        path = None
        M_total = np.eye(3)
        first = {}  # values of the first presentation (for drawings with arcs), per cumulative transform class
        state = {}
        for step, op in enumerate(program["ops"]):
            ctx.step = step
            seed_lib_rng(op)
            k = op["op"]
            try:
                if k == "drawing":
                    curves = make_drawing(op["name"], op["salt"])
                    state = {"name": op["name"], "polygonal": all(c["kind"] == "poly" for c in curves)}
                    continue
                if curves is None:
                    raise Inapplicable()
                if k == "present":
                    state.pop("imported", None)
                    state["unmerged"] = False
                    if op.get("via") == "dxf_bulge":
                        try:
                            path = trimesh.load_path(io.BytesIO(present_dxf(curves, op)), file_type="dxf")
                        except (KeyboardInterrupt, SystemExit, MemoryError):
                            raise
                        except BaseException as e:
                            ctx.fail("exchange", "dxf-bulge-raises", f"{type(e).__name__}: {e}")
                        state["imported"] = "dxf"
                    else:
                        V, ents = present(curves, op)
                        path = trimesh.path.Path2D(entities=ents, vertices=V, process=bool(op["process"]))
                        # polyline ends with their own copies of the vertices and no processing: the boundary is not connected yet; reads are
                        # made (and memoised) but judged only after merge_vertices / process has joined it
                        state["unmerged"] = bool(op["dup_vertices"]) and not bool(op["process"])
                    M_total = np.eye(3)
                    state["shrunk"] = False
                    state["pieces"] = 1 if op.get("via") == "dxf_bulge" else int(op.get("arc_pieces", 1))
                    state["pclass"] = ("dxfbulge-" if op.get("via") == "dxf_bulge" else "") + f"mid{op.get('arc_mid', 0.5)}-split{op['max_split']}-perm{int(op['permute'])}-rev{op['reverse_p']}-dup{int(op['dup_vertices'])}-proc{int(op['process'])}"
                    state["last"] = "present"
                    state["scale_len"], state["scale_area"] = 1.0, 1.0
                    ctx.count("op:present")
                    self._check_all(path, curves, M_total, state, first, ctx, ["paths", "area", "length", "polygons_full"] if False else [])
                    continue
                if path is None:
                    raise Inapplicable()
                memo = set(path._cache.cache.keys())
                if state.get("shrunk") and k in ("roundtrip", "reverse_entity"):
                    raise Inapplicable()
                if k == "read":
                    self._check_all(path, curves, M_total, state, first, ctx, op["names"])
                elif k == "read_all":
                    if state.get("unmerged"):
                        (path.process if op["rs"] % 2 else path.merge_vertices)()
                        state["unmerged"] = False
                        state["last"] = "process" if op["rs"] % 2 else "merge_vertices"
                    self._check_all(path, curves, M_total, state, first, ctx, READS)
                elif k == "transform":
                    if state.get("shrunk") or (op["cls"] == "shrink" and (state.get("imported") or state.get("unmerged"))):
                        raise Inapplicable()
                    M = self._matrix(op, state["polygonal"])
                    if op["cls"] == "shrink":
                        state["shrunk"] = True
                    path.apply_transform(M)
                    M_total = M @ M_total
                    state["last"] = "transform:" + op["cls"]
                    ctx.reach(state["name"], state["pclass"], "transform:" + op["cls"], "paths" in memo, "discrete" in memo)
                    self._check_all(path, curves, M_total, state, first, ctx, ["area", "length", "bounds"])
                elif k == "merge_vertices":
                    path.merge_vertices()
                    state["last"] = "merge_vertices"
                    state["unmerged"] = False
                elif k == "process":
                    path.process()
                    state["last"] = "process"
                    state["unmerged"] = False
                    ctx.reach(state["name"], state["pclass"], "process", "paths" in memo, "discrete" in memo)
                elif k == "copy":
                    path = path.copy()
                    state["last"] = "copy"
                elif k == "cache_clear":
                    ctx.count("fault:cache_clear")
                    path._cache.clear()
                    state["last"] = "cache_clear"
                elif k == "reverse_entity":
                    # the same boundary, one entity now runs the other way (in place, after whatever was read before)
                    e = path.entities[op["i"] % len(path.entities)]
                    if getattr(e, "closed", False) and type(e).__name__ == "Arc":
                        raise Inapplicable()
                    e.points = e.points[::-1]
                    state["last"] = "reverse_entity"
                    ctx.count("fault:reverse_entity_in_place")
                    ctx.reach(state["name"], state["pclass"], "reverse_entity", "paths" in memo, "discrete" in memo)
                elif k == "roundtrip":
                    if state.get("unmerged"):
                        raise Inapplicable()
                    path = self._roundtrip(path, op["fmt"], ctx)
                    state["last"] = "roundtrip:" + op["fmt"]
                    state["imported"] = op["fmt"]
                    ctx.reach(state["name"], state["pclass"], "roundtrip:" + op["fmt"], "paths" in memo)
                else:
                    raise Inapplicable()
                ctx.count("op:" + k)
                ctx.steps_sim += 1
                ctx.event(step, k, state["last"])
            except Inapplicable:
                ctx.count("skip:inapplicable")

    def _roundtrip(self, path, fmt, ctx):
        import trimesh

        try:
            if fmt == "dict":
                from trimesh.path.exchange.misc import dict_to_path

                d = path.to_dict()
                return trimesh.load_path(dict_to_path(d))
            data = path.export(file_type=fmt)
            data = data.encode("utf-8") if isinstance(data, str) else data
            return trimesh.load_path(io.BytesIO(data), file_type=fmt)
        except (KeyboardInterrupt, SystemExit, MemoryError):
            raise
        except BaseException as e:
            ctx.fail("exchange", fmt + "-raises", f"{type(e).__name__}: {e}")

    def _observe(self, path, names):
        out = {}
        for n in names:
            if n in ("paths", "discrete", "polygons_closed", "root", "enclosure_directed"):
                v = getattr(path, n)
                out[n] = len(v) if n != "enclosure_directed" else sorted((int(a), int(b)) for a, b in v.edges())
                if n == "enclosure_directed":
                    out[n] = len(out[n])
            elif n == "polygons_full":
                out[n] = signature(path)
            elif n == "enclosure_shell":
                out[n] = sorted(len(v) for v in path.enclosure_shell.values())
            elif n == "split":
                out[n] = sorted(round(float(b.area), 6) for b in path.split())
            elif n in ("area", "length"):
                out[n] = float(getattr(path, n))
            elif n in ("is_closed", "body_count"):
                out[n] = getattr(path, n)
            elif n in ("bounds", "extents"):
                out[n] = np.asarray(getattr(path, n), dtype=float)
            elif n == "identifier_hash":
                out[n] = "skip"
        return out

    def _check_all(self, path, curves, M, state, first, ctx, names):
        import trimesh

        if not names:
            return
        if state.get("unmerged"):
            # the boundary is not joined yet: read (so the values are memoised before the join) without judging
            try:
                self._observe(path, names)
            except (KeyboardInterrupt, SystemExit, MemoryError):
                raise
            except BaseException as e:
                ctx.count("exc:" + type(e).__name__)
            ctx.count("probe:read-while-unmerged")
            return
        label = f"{state['name']} [{state['pclass']}] after {state['last']}"
        imported = state.get("imported")
        tol = 1e-9 if not imported else {"dxf": 1e-6, "svg": 1e-6, "dict": 1e-9}[imported]

        def fail(obs, detail):
            ctx.fail("regions", obs, f"{label}: {detail}")

        try:
            got = self._observe(path, names)
        except (KeyboardInterrupt, SystemExit, MemoryError):
            raise
        except BaseException as e:
            fail("read-raises", f"{type(e).__name__}: {e}")
        mv = model_values(curves, M)
        det = abs(mv["det"])
        sfac = math.sqrt(det)
        S = max(1.0, float(np.abs(np.asarray(path.vertices)).max()))
        if state.get("shrunk"):
            S = float(np.abs(np.asarray(path.vertices)).max())  # judged relative to the size of the drawing
        n_curves, n_shells = mv["n_curves"], mv["n_shells"]
        for n in names:
            ctx.count("check:" + n)
        if "paths" in got and got["paths"] != n_curves:
            fail("paths", f"{got['paths']} closed paths != {n_curves} curves")
        if "discrete" in got and got["discrete"] != n_curves:
            fail("discrete", f"{got['discrete']} discrete curves != {n_curves}")
        if "polygons_closed" in got and got["polygons_closed"] != n_curves:
            fail("polygons_closed", f"{got['polygons_closed']} != {n_curves}")
        if "root" in got and got["root"] != n_shells:
            fail("root", f"{got['root']} root curves != {n_shells} shells")
        if "body_count" in got and got["body_count"] != n_shells:
            fail("body_count", f"{got['body_count']} != {n_shells}")
        if "is_closed" in got and got["is_closed"] is not True:
            fail("is_closed", "a drawing of closed curves reports is_closed False")
        want_holes = sorted(sum(1 for h in curves if h["depth"] == c["depth"] + 1 and self._inside(h, c)) for c in curves if c["depth"] % 2 == 0)
        if "enclosure_directed" in got:
            # (the graph trimesh documents: an edge from every shell to each hole directly inside it)
            want_edges = sum(1 for c in curves for h in curves if c["depth"] % 2 == 0 and h["depth"] == c["depth"] + 1 and self._inside(h, c))
            if got["enclosure_directed"] != want_edges:
                fail("nesting", f"enclosure_directed has {got['enclosure_directed']} shell -> hole edges != {want_edges} holes directly inside a shell")
        if "enclosure_shell" in got and got["enclosure_shell"] != want_holes:
            fail("nesting", f"enclosure_shell: holes per shell {got['enclosure_shell']} != {want_holes}")
        if "split" in got:
            if len(got["split"]) != n_shells:
                fail("split", f"split() gave {len(got['split'])} bodies != {n_shells} shells")
            if mv["polygonal"]:
                want_body = sorted(round((abs(shoelace(c["pts"])) - sum(abs(shoelace(h["pts"])) for h in curves if h["depth"] == c["depth"] + 1 and self._inside(h, c))) * det, 6) for c in curves if c["depth"] % 2 == 0)
                if same(np.array(got["split"]), np.array(want_body), max(tol, 2e-6) * S * S, "body areas"):
                    fail("split", f"areas of the split bodies {got['split']} != {want_body}")
        if "polygons_full" in got:
            sig = got["polygons_full"]
            if len(sig) != n_shells:
                fail("polygons_full", f"{len(sig)} full polygons != {n_shells} shells")
            if sorted(h for _, h in sig) != want_holes:
                fail("nesting", f"holes per shell {sorted(h for _, h in sig)} != {want_holes}")
            if mv["polygonal"]:
                want_ext = sorted(round(abs(shoelace(c["pts"])) * det, 6) for c in curves if c["depth"] % 2 == 0)
                if same(np.array(sorted(a for a, _ in sig)), np.array(want_ext), max(tol, 2e-6) * S * S, "shell areas"):
                    fail("shell-areas", f"{sorted(a for a, _ in sig)} != {want_ext}")
        if mv["polygonal"]:
            if "area" in got and same(got["area"], mv["area"], tol * S * S, "area"):
                fail("area", f"{got['area']} != exact {mv['area']}")
            if "length" in got and same(got["length"], mv["length"], tol * S, "length"):
                fail("length", f"{got['length']} != exact {mv['length']}")
            if "bounds" in got and same(got["bounds"], mv["bounds"], tol * S, "bounds"):
                fail("bounds", f"{got['bounds'].tolist()} != {mv['bounds'].tolist()}")
        else:
            # arcs: invariance across presentations and histories + similarity law, against the first presentation's values
            for n, power in (("area", 2), ("length", 1)):
                if n in got:
                    base = got[n] / (sfac**power)
                    key = n if n == "length" else (n, state.get("pieces", 1))
                    if key not in first:
                        first[key] = base
                    # 1e-6: an arc re-discretised from its three transformed control points goes through arc_center again,
                    # which is accurate to ~1e-8 relative; a wrong region differs by O(1e-2) at least
                    elif same(base, first[key], max(tol, 1e-6) * max(1.0, abs(first[key])), n):
                        fail(n + "-invariance", f"{n} {base} (normalised by s^{power}) != {first[key]} seen for another presentation / history of the same drawing")
        # coherence with a path freshly built from the current vertices and entities (C01-style)
        import copy as pycopy

        fresh = trimesh.path.Path2D(entities=[pycopy.deepcopy(e) for e in path.entities], vertices=np.array(path.vertices).tolist(), process=False)
        for e in fresh.entities:
            if hasattr(e, "_direction"):
                del e._direction
        for n in names:
            if n in ("area", "length"):
                if same(got[n], float(getattr(fresh, n)), 1e-9 * S * S, n):
                    ctx.fail("coherence", n, f"{label}: {n} {got[n]} != {getattr(fresh, n)} of a path freshly built from the same vertices and entities")
            if n == "polygons_full":
                if got[n] != signature(fresh):
                    ctx.fail("coherence", n, f"{label}: regions {got[n]} != {signature(fresh)} of a freshly built path")

    @staticmethod
    def _inside(h, c):
        """Is curve h inside curve c (by a representative point; curves are simple and nested or disjoint by construction)."""
        from shapely.geometry import Point, Polygon

        def poly(cv):
            if cv["kind"] == "poly":
                return Polygon(cv["pts"])
            if cv["kind"] in ("circle", "lens", "dshape", "keyhole"):
                return Point(cv["c"]).buffer(cv["r"])
            return Point(cv["c"]).buffer(cv["r"] + cv["w"] / 2)

        pt = h["pts"][0] if h["kind"] == "poly" else h["c"]
        return poly(c).contains(Point(pt))

    def simplify_op(self, op):
        out = []
        if op["op"] == "present":
            for key, val in (("permute", False), ("permute_vertices", False), ("dup_vertices", False), ("reverse_p", 0.0), ("max_split", 1), ("closed_arc", False)):
                if op.get(key) != val:
                    o = dict(op, **{key: val})
                    if key == "dup_vertices":
                        o["process"] = op["process"]
                    out.append(o)
        if op["op"] == "transform" and op["cls"] != "translation":
            out.append(dict(op, cls="translation"))
        if op["op"] == "read" and len(op.get("names", [])) > 1:
            for n in op["names"]:
                out.append(dict(op, names=[n]))
        return out

    def simplify_program(self, program):
        out = []
        ops = program["ops"]
        if ops and ops[0]["op"] == "drawing" and ops[0]["name"] != "square":
            for name in ("square", "square_hole", "circle"):
                if ops[0]["name"] != name:
                    out.append(dict(program, ops=[dict(ops[0], name=name)] + ops[1:]))
        return out


def _mut_transform_keeps_polygons():
    import trimesh
    P = trimesh.path.path.Path
    orig = P.apply_transform

    def apply_transform(self, transform):
        keep = {k: self._cache.cache[k] for k in ("polygons_closed", "polygons_full") if k in self._cache.cache}
        before = self.vertices.__hash__()
        out = orig(self, transform)
        if keep and self.vertices.__hash__() != before:
            self._cache.cache.update(keep)
        return out

    P.apply_transform = apply_transform
    return lambda: setattr(P, "apply_transform", orig)


def _mut_line_ignores_direction():
    from trimesh.path.entities import Line
    orig = Line.discrete

    def discrete(self, vertices, scale=1.0):
        return np.asanyarray(vertices)[self.points]

    Line.discrete = discrete
    return lambda: setattr(Line, "discrete", orig)


def _mut_hash_direction_agnostic():
    import trimesh
    from trimesh import caching
    P = trimesh.path.path.Path
    orig = P.__hash__

    def h(self):
        hashable = [hex(self.vertices.__hash__()).encode("utf-8")]
        hashable.extend(e._bytes() for e in self.entities)
        return caching.hash_fast(b"".join(hashable))

    P.__hash__ = h
    return lambda: setattr(P, "__hash__", orig)


C14.MUTANTS = {"transform-keeps-memoised-polygons": _mut_transform_keeps_polygons, "line-discrete-ignores-traversal-direction": _mut_line_ignores_direction, "path-hash-direction-agnostic (the repaired defect)": _mut_hash_direction_agnostic}

WORLD = C14()
