"""
C20 - loading arbitrary or corrupted bytes terminates with a clean outcome.

Fault-injecting arm of the storage simulation. One run = one valid exported payload (from the C08
generators) + a sequence of load attempts, each under a storage fault (truncation, bit/byte flips,
numeric-field mutation, chunk delete/duplicate/swap, zero-filled block, splice, garbage, token soup,
missing/truncated side files, corrupt archives, content faults behind a valid container: a re-packed
archive / GLB with one corrupted member, re-wired references and reference cycles, glTF layout fields) or a stream fault (EIO on the n-th read/seek, early
EOF, closed under the reader), through file objects and through paths on disk.
Oracles per attempt: outcome (geometry or ordinary Exception), simulated time (Python line events
in trimesh and its dependencies) within a + b*len, tracemalloc peak within A + B*len, every file
opened during the call closed, no descriptor leaked; after the faults a valid load still works.
"""
import contextlib
import io as _io_mod
import os
import random as _random
import re
import shutil
import sys
import tempfile

import numpy as np

from ..core import monitor
from ..core.engine import Inapplicable, seed_lib_rng
from ..core.world import World, pick, swarm_weights
from ..worlds import amplifiers
from ..worlds import files as fw

# fixed budgets (measured once on the unchanged tree with >= 20x margin; never recalibrated at run time)
STEP_A, STEP_B = 150_000, 300
MEM_A, MEM_B = 48 * 2**20, 3000
# resident memory that is still held when the call returns (C-level allocations included): coarse, because the allocator keeps arenas
RSS_A, RSS_B = 128 * 2**20, 300

FAULTS = [
    "none", "truncate", "truncate_boundary", "flip_bit", "set_byte", "add_byte", "int_field", "u32_field", "delete_range", "dup_range",
    "swap_ranges", "zero_fill", "splice_same", "splice_other", "append_garbage", "empty", "whitespace", "random_bytes", "token_soup",
    "side_missing", "side_truncated", "side_swapped", "stream_eio", "stream_eof", "stream_closed", "multi_flip", "len_field", "many_lines_one_long",
    "token_copy", "json_field", "container_inner", "amplifier", "uri_special",
]
CONTAINERS = {"3mf", "glb", "zip_stl", "zip_ply", "zip_glb", "zip_obj_mtl", "targz_obj", "tarbz2_ply", "bz2_stl"}
TEXTUAL = {"gltf", "dae", "svg", "dxf", "obj", "obj_mtl", "off", "ply_ascii", "stl_ascii", "dict", "dict64", "xyz"}
AMPLIFIED = {"bz2_stl", "dxf", "glb", "gltf", "3mf", "obj", "obj_mtl", "stl_ascii", "stl", "svg", "3dxml"}
INNER_KINDS = ["token_copy", "token_copy", "token_copy", "token_copy", "json_field", "int_field", "flip_bit", "truncate", "delete_range", "dup_range", "set_byte", "zero_fill"]
# keys a glTF / JSON document may legally carry that trimesh's own exporter never writes, and values worth trying in any numeric slot
JSON_KEYS = ["byteStride", "byteOffset", "byteLength", "count", "componentType", "type", "normalized", "sparse", "mode", "indices", "mesh", "children", "matrix", "scale", "rotation", "translation", "bufferView", "buffer", "target", "min", "max", "uri", "source", "sampler", "index", "texCoord", "extras", "camera", "skin", "weights", "POSITION", "NORMAL", "COLOR_0", "TEXCOORD_0"]
JSON_VALUES = [0, 1, -1, 2, 3, 4, 12, 16, 92, 255, 256, 5120, 5121, 5123, 5125, 5126, 65535, 65536, 2**31 - 1, 2**31, 2**32, 12000000000000, 10**18, 0.5, -0.0, 1e308, "VEC3", "SCALAR", "MAT4", "", None, True, [], [0], [0, 0], {}, [1e30] * 16]
SOUP = {
    "stl": [b"solid", b"facet normal 0 0 1", b"outer loop", b"vertex 0 0 0", b"endloop", b"endfacet", b"endsolid", b"\n", b" 1e309 ", b"nan"],
    "ply": [b"ply\n", b"format ascii 1.0\n", b"format binary_little_endian 1.0\n", b"element vertex 3\n", b"element face 999999999\n", b"property float x\n", b"property list uchar int vertex_indices\n", b"end_header\n", b"0 0 0\n", b"3 0 1 2\n"],
    "off": [b"OFF\n", b"3 1 0\n", b"0 0 0\n", b"3 0 1 2\n", b"# c\n", b"99999999 1 0\n"],
    "obj": [b"v 0 0 0\n", b"vn 0 0 1\n", b"vt 0 0\n", b"f 1 2 3\n", b"f 1/1/1 2/2/2 3/3/3\n", b"f -1 -2 -3\n", b"o x\n", b"g y\n", b"mtllib a.mtl\n", b"usemtl m\n", b"\\\n", b"f 999999 1 2\n"],
    "dxf": [b"0\nSECTION\n", b"2\nENTITIES\n", b"0\nLINE\n", b"10\n0.0\n", b"20\n1.0\n", b"11\n1.0\n", b"21\n0.0\n", b"0\nENDSEC\n", b"0\nEOF\n", b"0\nLWPOLYLINE\n", b"90\n99999\n", b"0\nARC\n", b"40\n1.0\n", b"50\n0\n", b"51\n90\n", b"2\nHEADER\n", b"9\n$INSUNITS\n", b"70\n1\n", b"0\nINSERT\n", b"2\nB\n", b"0\nBLOCK\n"],
    "svg": [b"<svg xmlns='http://www.w3.org/2000/svg'>", b"<path d='M 0 0 L 1 0 L 1 1 Z'/>", b"<g transform='matrix(1 0 0 1 0 0)'>", b"</g>", b"</svg>", b"<path d='M0,0 A1,1 0 0 1 1,1'/>", b"<circle cx='0' cy='0' r='1'/>", b"<path d='M 1e999 0 C 1 2 3 4 5 6'/>"],
    "gltf": [b'{"asset":{"version":"2.0"}', b',"scenes":[{"nodes":[0]}]', b',"nodes":[{"children":[0],"mesh":0}]', b',"meshes":[{"primitives":[{"attributes":{"POSITION":0},"indices":1}]}]', b',"accessors":[{"bufferView":0,"componentType":5126,"count":999999999,"type":"VEC3"}]', b',"bufferViews":[{"buffer":0,"byteLength":12}]', b',"buffers":[{"byteLength":12}]', b"}"],
    "xyz": [b"0 0 0\n", b"1 2 3 255 0 0\n", b"a b c\n", b"1e400 0 0\n", b"\n"],
    "binvox": [b"#binvox 1\n", b"dim 2 2 2\n", b"dim 99999 99999 99999\n", b"translate 0 0 0\n", b"scale 1\n", b"data\n", b"\x01\x08", b"\x00\xff"],
}


# amplifiers whose cost on the unchanged tree is polynomial in the input rather than proportional to it (recorded findings): they run
# with a 100 times larger allowance, must still end, and anything beyond that allowance is a violation like any other
AMP_FINDINGS = {"dxf_flat": "C20-dxf-insert-expansion-quadratic", "3mf_chain_deep": "C20-3mf-component-chain-superlinear", "bz2_bomb": "C20-decompression-unbounded"}


# loaders registered by trimesh for formats it cannot write (its own wrappers around meshio / lxml / openctm): arbitrary bytes and
# corrupted model files of the tree under test. STEP (cascadio, native code) is left out: see DESIGN.
FOREIGN = ["vtk", "vtu", "msh", "mesh", "nas", "inp", "xaml", "3dxml", "ctm", "zae", "wkt", "tec", "ugrid", "su2", "xdmf", "bdf", "avs"]


# of those, the loaders that are trimesh's own code (lxml only parses the XML): judged like every other loader, all faults
FOREIGN_OWN = {"3dxml", "xaml"}
FOREIGN_FAULTS = ["none", "truncate", "truncate_boundary", "flip_bit", "multi_flip", "set_byte", "add_byte", "delete_range", "zero_fill", "empty", "whitespace", "random_bytes", "token_soup",
                  "append_garbage", "splice_same", "splice_other", "stream_eio", "stream_eof", "stream_closed", "token_copy"]


class _Null(_io_mod.TextIOBase):
    def write(self, s):
        return len(s)


_DEVNULL = _Null()


def gltf_unbacked_bytes(files, main):
    """Bytes an accessor without a buffer view declares (count x components x item size), the largest one; 0 when there is none."""
    import json

    data = files.get(main, b"")
    try:
        if data[:2] == b"PK":
            import io
            import zipfile

            with zipfile.ZipFile(io.BytesIO(data)) as z:
                names = [n for n in z.namelist() if n.lower().endswith((".glb", ".gltf"))]
                data = z.read(names[0]) if names else b""
        if data[:4] == b"glTF":
            data = data[20 : 20 + int.from_bytes(data[12:16], "little")]
        doc = json.loads(data.decode("utf-8", errors="replace"))  # (the loader is as lenient)
        sizes = {5120: 1, 5121: 1, 5122: 2, 5123: 2, 5125: 4, 5126: 4}
        comps = {"SCALAR": 1, "VEC2": 2, "VEC3": 3, "VEC4": 4, "MAT2": 4, "MAT3": 9, "MAT4": 16}
        best = 0
        for a in doc.get("accessors") or []:
            if isinstance(a, dict) and "bufferView" not in a and isinstance(a.get("count"), int):
                best = max(best, a["count"] * comps.get(a.get("type"), 1) * sizes.get(a.get("componentType"), 4))
        return best
    except Exception:
        return 0


# the CPU-time experiment, as run in a child interpreter: argv = family, n
_CPU_CHILD = r"""
import gc, io, json, os, sys, time
sys.stdout = open(os.devnull, "w")
import trimesh
from sim.worlds import amplifiers
fam, n = sys.argv[1], int(sys.argv[2])
ft, build = amplifiers.LINEAR[fam]
load = trimesh.load_path if ft in ("dxf", "svg") else trimesh.load
def cost(k, repeat):
    doc = build(k)
    best = None
    for _ in range(repeat):
        gc.collect(); gc.disable()
        try:
            t = time.process_time()
            try:
                load(io.BytesIO(doc), file_type=ft)
            except Exception:
                pass
            dt = time.process_time() - t
        finally:
            gc.enable()
        best = dt if best is None else min(best, dt)
    return best
cost(8, 1)
out = {"t1": cost(n, 3), "t16": cost(16 * n, 1)}
sys.__stdout__.write("TIMES " + json.dumps(out) + "\n")
"""

# payload format -> the file type its documents are loaded as
FT_OF = {"stl_ascii": "stl", "ply_ascii": "ply", "obj_mtl": "obj", "glb": "gltf"}
# doubling experiments that reproduce a recorded finding (none so far)
SCALING_FINDINGS = {}


def budget_steps(n):
    return STEP_A + STEP_B * n


def budget_mem(n):
    return MEM_A + MEM_B * n


# ----------------------------------------------------------------------------- byte faults
def _ranges(n, a, b):
    a, b = sorted((a % (n + 1), b % (n + 1)))
    return a, max(b, min(n, a + 1))


def apply_fault(data, f, other=b""):
    """Pure function of (bytes, fault dict, other payload)."""
    n = len(data)
    k = f["kind"]
    if k in ("none", "side_missing", "side_truncated", "side_swapped", "stream_eio", "stream_eof", "stream_closed"):
        return data
    if k == "empty":
        return b""
    if k == "whitespace":
        return b" \n\t\r\n  " * (1 + f.get("n", 1) % 5)
    if k == "random_bytes":
        return bytes(np.random.RandomState(f["salt"] % (2**32)).randint(0, 256, 1 + f.get("n", 64) % 2048, dtype=np.uint8).tolist())
    if k == "token_soup":
        toks = SOUP.get(f.get("fmt"), SOUP["obj"])
        r = _random.Random(f["salt"])
        return b"".join(r.choice(toks) for _ in range(1 + f.get("n", 10) % 60))
    if k == "amplifier":
        from ..worlds import amplifiers

        return amplifiers.build(f["sub"], f.get("a", 0), f.get("b", 0), f.get("fmt"))
    if n == 0:
        return data
    if k == "token_copy":
        return token_copy(data, f)
    if k == "uri_special":
        return uri_special(data, f)
    if k == "unbacked_accessor":
        import json

        try:
            doc = json.loads(data.decode("utf-8"))
            doc["accessors"][0].pop("bufferView", None)
            doc["accessors"][0]["count"] = 2 * 10**7
            return json.dumps(doc).encode("utf-8")
        except Exception:
            return data
    if k == "json_field":
        return json_field(data, f)
    if k == "container_inner":
        return container_inner(data, f, other)
    if k in ("truncate", "truncate_boundary"):
        return data[: f["at"] % (n + 1)]
    b = bytearray(data)
    if k == "flip_bit":
        b[f["at"] % n] ^= 1 << (f.get("bit", 0) % 8)
    elif k == "multi_flip":
        r = _random.Random(f["salt"])
        for _ in range(2 + f.get("n", 3) % 7):
            pos = r.randrange(min(n, 512)) if r.random() < 0.5 else r.randrange(n)
            b[pos] = r.choice([0, 255, b[pos] ^ (1 << r.randrange(8)), (b[pos] + 1) % 256, r.randrange(256)])
    elif k == "set_byte":
        b[f["at"] % n] = f.get("val", 0) % 256
    elif k == "add_byte":
        b[f["at"] % n] = (b[f["at"] % n] + f.get("delta", 1)) % 256
    elif k == "int_field":
        # replace the j-th decimal integer token in the first 4 KiB
        head = bytes(b[:4096])
        toks = list(re.finditer(rb"(?<![\w.+-])\d+(?![\w.])", head))
        if not toks:
            return data
        m = toks[f.get("j", 0) % len(toks)]
        old = int(m.group())
        new = {"x10": old * 10 + 7, "x1000": old * 1000, "two32": 2**32 + old, "two31": 2**31 - 1, "neg": -1 - old, "zero": 0, "one_more": old + 1, "one_less": max(old - 1, 0), "huge": 10**15}[f.get("val", "x10")]
        return bytes(b[: m.start()]) + str(new).encode() + bytes(b[m.end():])
    elif k == "u32_field":
        pos = 4 * (f.get("j", 0) % max(1, min(n, 160) // 4))
        if pos + 4 > n:
            return data
        old = int.from_bytes(b[pos : pos + 4], "little")
        new = {"x10": old * 10 + 7, "x1000": old * 1000, "two32": 0xFFFFFFFF, "two31": 0x7FFFFFFF, "neg": 0xFFFFFFFE, "zero": 0, "one_more": old + 1, "one_less": max(old - 1, 0), "huge": 0xFFFFFF00}[f.get("val", "x10")] % (2**32)
        b[pos : pos + 4] = new.to_bytes(4, "little")
    elif k == "len_field":
        offs = length_fields(data, f.get("ft", ""))
        if not offs:
            # no binary length field known for this format: fall back to the first 32-bit words
            offs = [4 * i for i in range(min(n, 96) // 4)]
        if not offs:
            return data
        pos = offs[f.get("j", 0) % len(offs)]
        old = int.from_bytes(b[pos : pos + 4], "little")
        new = {
            "x10": old * 10 + 7, "x1000": old * 1000, "two32": 0xFFFFFFFF, "two31": 0x7FFFFFFF, "neg": 0xFFFFFFFE, "zero": 0, "one_more": old + 1,
            "one_less": max(old - 1, 0), "huge": 0xFFFFFF00, "bit31": old | 0x80000000, "bit30": old | 0x40000000, "bit28": old | 0x10000000, "top7f": (old & 0x00FFFFFF) | 0x7F000000, "bit24": old | 0x01000000,
        }[f.get("lval", "bit31")] % (2**32)
        b[pos : pos + 4] = new.to_bytes(4, "little")
    elif k == "many_lines_one_long":
        r = _random.Random(f["salt"])
        lines, longest = r.choice([(2000, 2000), (8000, 8000), (8000, 100), (100, 8000)])
        tok = r.choice([b"0", b"v 0 0 0", b"10", b"0 0 0", b"LINE", b" "])
        return bytes(b) + b"\n" + (tok + b"\n") * lines + r.choice([b"A", b"9", b" ", b"0 "]) * longest + b"\n"
    elif k == "delete_range":
        a, c = _ranges(n, f["a"], f["b"])
        del b[a:c]
    elif k == "dup_range":
        a, c = _ranges(n, f["a"], f["b"])
        b[c:c] = b[a:c]
    elif k == "swap_ranges":
        a, c = _ranges(n // 2, f["a"], f["b"])
        d = n // 2 + a
        e = min(n, n // 2 + c)
        chunk1, chunk2 = bytes(b[a:c]), bytes(b[d:e])
        b = bytearray(bytes(b[:a]) + chunk2 + bytes(b[c:d]) + chunk1 + bytes(b[e:]))
    elif k == "zero_fill":
        a, c = _ranges(n, f["a"], f["b"])
        b[a:c] = bytes(c - a)
    elif k in ("splice_same", "splice_other"):
        at = f["at"] % (n + 1)
        o = other or data[::-1]
        return bytes(b[:at]) + o[f.get("oat", 0) % (len(o) + 1):]
    elif k == "append_garbage":
        return bytes(b) + bytes(np.random.RandomState(f["salt"] % (2**32)).randint(0, 256, 1 + f.get("n", 16) % 300, dtype=np.uint8).tolist())
    return bytes(b)


_TOKEN = re.compile(rb'"[^"\n<>]{0,48}"|(?<![\w.])-?\d+(?:\.\d+)?(?:[eE][+-]?\d+)?(?![\w.])')


_REFKEY = re.compile(rb'([A-Za-z_:]+)["\']?\s*[=:]\s*\[?\s*$')
_REFWORDS = (b"id", b"ref", b"index", b"indices", b"source", b"target", b"mesh", b"node", b"child", b"view", b"buffer", b"accessor", b"material", b"parent", b"url", b"href", b"count", b"stride", b"offset", b"size", b"length", b"type", b"scene", b"texture", b"sampler", b"image", b"position", b"normal")


def _is_reference(data, t):
    m = _REFKEY.search(data[max(0, t.start() - 28) : t.start()])
    if not m:
        return False
    key = m.group(1).lower()
    return any(w in key for w in _REFWORDS)


def token_copy(data, f):
    """Copy one quoted string / number of a text payload over another of the same class: re-wires ids, references, indexes and counts
    (an XML component pointing at its own object, an accessor pointing at another buffer view) while the syntax stays valid.
    Half of the time both ends are values of reference-like attributes / keys (id, objectid, bufferView, count, source ...)."""
    toks = list(_TOKEN.finditer(data[:131072]))
    if len(toks) < 2:
        return data
    r = _random.Random(f["salt"])
    u = r.random()
    if u < 0.6:
        refs = [t for t in toks if _is_reference(data, t)]
        if len(refs) >= 2:
            toks = refs
            if u < 0.2:
                # reference cycle: a reference takes the id of the element that encloses / precedes it
                ids = [t for t in refs if re.search(rb'(?<![A-Za-z])id["\']?\s*[=:]\s*$', data[max(0, t.start() - 8) : t.start()].lower())]
                others = [t for t in refs if t not in ids]
                if ids and others:
                    dst = others[r.randrange(len(others))]
                    before = [t for t in ids if t.start() < dst.start()]
                    if before and before[-1].group() != dst.group():
                        return data[: dst.start()] + before[-1].group() + data[dst.end():]
    for _ in range(8):
        dst = toks[r.randrange(len(toks))]
        quoted = dst.group()[:1] == b'"'
        same = [t for t in toks if (t.group()[:1] == b'"') == quoted and t.group() != dst.group()]
        if not same:
            continue
        # prefer a nearby source (the same element family) half of the time
        near = [t for t in same if abs(t.start() - dst.start()) < 400]
        src = r.choice(near) if near and r.random() < 0.5 else r.choice(same)
        return data[: dst.start()] + src.group() + data[dst.end():]
    return data


_URI = re.compile(rb'("uri"\s*:\s*")([^"]{1,200})(")|((?:mtllib|map_Kd|map_Ka|map_Ks|map_bump)[ \t]+)([^\r\n]{1,200})()|(<init_from>)([^<]{1,200})(</init_from>)')


def uri_special(data, f):
    """Point a reference to a side file (glTF uri, OBJ mtllib / texture map, COLLADA image) at a file that is not a regular file and
    never ends. Loading by path hands such references to the file-system resolver."""
    ms = list(_URI.finditer(data[:262144]))
    if not ms:
        return data
    m = ms[f.get("j", 0) % len(ms)]
    g = 1 if m.group(1) is not None else (4 if m.group(4) is not None else 7)
    target = [b"/dev/zero", b"/dev/zero", b"../../../../../../dev/zero", b"/dev/urandom"][f.get("salt", 0) % 4]
    return data[: m.start(g + 1)] + target + data[m.end(g + 1):]


def json_field(data, f):
    """Parse a JSON document (or the JSON chunk of a GLB), change one numeric leaf or add one legal-but-never-exported key, re-serialise."""
    if data[:4] == b"glTF":
        return container_inner(data, dict(f, inner=dict(f, kind="json_field")), b"")
    import json

    try:
        doc = json.loads(data.decode("utf-8"))
    except Exception:
        return data
    r = _random.Random(f["salt"])
    dicts, leaves = [], []

    def walk(x):
        if isinstance(x, dict):
            dicts.append(x)
            for k in sorted(x):
                if isinstance(x[k], (int, float)) and not isinstance(x[k], bool):
                    leaves.append((x, k))
                walk(x[k])
        elif isinstance(x, list):
            for i, v in enumerate(x):
                if isinstance(v, (int, float)) and not isinstance(v, bool) and len(x) <= 16:
                    leaves.append((x, i))
                walk(v)

    walk(doc)
    u = r.random()
    layout = [d for key in ("bufferViews", "accessors", "buffers", "images") for d in (doc.get(key) or []) if isinstance(d, dict)] if isinstance(doc, dict) else []
    if layout and r.random() < 0.5:
        # the JSON of a glTF describes a binary layout: set one layout field of one buffer view / accessor, written before or not
        d = layout[r.randrange(len(layout))]
        accs = [a for a in (doc.get("accessors") or []) if isinstance(a, dict)]
        if accs and r.random() < 0.15:
            # an accessor without a buffer view is legal (it stands for zeros): its count is then bounded by nothing in the file
            a = accs[r.randrange(len(accs))]
            a.pop("bufferView", None)
            a["count"] = r.choice([2 * 10**7, 10**9, 2**31])
            try:
                return json.dumps(doc).encode("utf-8")
            except Exception:
                return data
        key = r.choice(["byteStride", "byteStride", "byteStride", "byteOffset", "byteLength", "count", "componentType", "type", "bufferView", "buffer", "normalized", "sparse"])
        old = d.get(key)
        vals = JSON_VALUES + ([old + 1, old - 1, old * 2, old * 80, old * 1000] if isinstance(old, (int, float)) and not isinstance(old, bool) else [])
        d[key] = r.choice(vals)
    elif leaves and u < 0.6:
        c, k = leaves[r.randrange(len(leaves))]
        old = c[k]
        c[k] = r.choice(JSON_VALUES[:23] + [old + 1, old - 1, old * 2, old * 1000, -old, old + 0.5])
    elif dicts:
        d = dicts[r.randrange(len(dicts))]
        if d and u < 0.8:
            del d[sorted(d)[r.randrange(len(d))]]
        else:
            d[r.choice(JSON_KEYS)] = r.choice(JSON_VALUES)
    try:
        return json.dumps(doc).encode("utf-8")
    except Exception:
        return data


def _tar_inner(raw, f, inner):
    """Apply the inner fault to one member of an uncompressed tar archive and write the archive again; None if it is not one."""
    import io
    import tarfile

    try:
        with tarfile.open(fileobj=io.BytesIO(raw)) as t:
            members = [(m.name, t.extractfile(m).read()) for m in t.getmembers() if m.isfile()]
    except Exception:
        return None
    if not members:
        return None
    j = f.get("j", 0) % len(members)
    members[j] = (members[j][0], apply_fault(members[j][1], inner, b""))
    buf = io.BytesIO()
    with tarfile.open(fileobj=buf, mode="w") as t:
        for name, b in members:
            info = tarfile.TarInfo(name)
            info.size = len(b)
            t.addfile(info, io.BytesIO(b))
    return buf.getvalue()


def container_inner(data, f, other=b""):
    """Valid container, corrupt content: apply a fault to one member of a zip / 3MF / tar.gz archive or to the JSON chunk of a GLB and
    re-pack with correct sizes and checksums, so the fault reaches the parser behind the decompressor."""
    import io

    inner = dict(f.get("inner") or dict(f, kind="token_copy"))
    if inner.get("kind") == "container_inner":
        inner["kind"] = "token_copy"
    if data[:4] == b"glTF" and len(data) >= 20:
        if inner.get("salt", 0) % 2:
            inner["kind"] = "json_field"  # the chunk is a JSON document: mutate it as one half of the time
        jl = int.from_bytes(data[12:16], "little")
        if data[16:20] != b"JSON" or 20 + jl > len(data):
            return data
        chunk = apply_fault(data[20 : 20 + jl].rstrip(b" "), inner, b"")
        chunk += b" " * (-len(chunk) % 4)
        rest = data[20 + jl :]
        total = 20 + len(chunk) + len(rest)
        return b"glTF" + data[4:8] + total.to_bytes(4, "little") + len(chunk).to_bytes(4, "little") + b"JSON" + chunk + rest
    if data[:2] == b"PK":
        import zipfile

        try:
            with zipfile.ZipFile(io.BytesIO(data)) as z:
                members = [(i.filename, z.read(i.filename)) for i in z.infolist()]
        except Exception:
            return data
        if not members:
            return data
        # the largest members carry the model: choose among them more often
        order = sorted(range(len(members)), key=lambda i: -len(members[i][1]))
        j = order[0] if f.get("j", 0) % 3 else order[f.get("j", 0) % len(order)]
        members[j] = (members[j][0], apply_fault(members[j][1], inner, b""))
        buf = io.BytesIO()
        with zipfile.ZipFile(buf, "w", zipfile.ZIP_DEFLATED) as z:
            for name, b in members:
                z.writestr(zipfile.ZipInfo(name, date_time=(2020, 1, 1, 0, 0, 0)), b, compress_type=zipfile.ZIP_DEFLATED)
        return buf.getvalue()
    if data[:3] == b"BZh":
        import bz2

        try:
            raw = bz2.decompress(data)
        except Exception:
            return data
        if raw[257:262] == b"ustar":
            out = _tar_inner(raw, f, inner)
            return data if out is None else bz2.compress(out)
        return bz2.compress(apply_fault(raw, inner, b""))
    if data[:2] == b"\x1f\x8b":
        import gzip

        try:
            raw = gzip.decompress(data)
        except Exception:
            return data
        out = _tar_inner(raw, f, inner)
        return data if out is None else gzip.compress(out, mtime=0)
    return data


def length_fields(data, ft):
    """Offsets of 4-byte little-endian length / count / offset fields, found from the structure of the valid payload."""
    n = len(data)
    out = []
    if data[:4] == b"glTF" and n >= 20:
        out += [8, 12]
        jl = int.from_bytes(data[12:16], "little")
        if 20 + jl + 8 <= n:
            out += [20 + jl, 20 + jl + 4]
    if ft == "stl" and n >= 84:
        out += [80]
    # zip containers (zip, 3mf): sizes in local headers, central directory and end record
    i = data.find(b"PK\x03\x04")
    while 0 <= i < n - 30 and len(out) < 40:
        out += [i + 18, i + 22]
        i = data.find(b"PK\x03\x04", i + 4)
    i = data.find(b"PK\x01\x02")
    while 0 <= i < n - 46 and len(out) < 60:
        out += [i + 20, i + 24, i + 42]
        i = data.find(b"PK\x01\x02", i + 4)
    i = data.rfind(b"PK\x05\x06")
    if 0 <= i <= n - 22:
        out += [i + 12, i + 16]
    return [o for o in out if o + 4 <= n]


def boundaries(data, ft):
    """Structure boundaries worth truncating at."""
    n = len(data)
    out = {0, 1, n - 1, n, n // 2}
    for marker in (b"end_header\n", b"\n", b"JSON", b"BIN\x00", b"data\n", b"ENTITIES", b"</", b"PK\x01\x02", b"PK\x05\x06", b"endsolid"):
        i = data.find(marker)
        if i >= 0:
            out.update({i, i + len(marker), i + len(marker) + 1})
    if ft == "stl":
        out.update({80, 84, 84 + 50, 83})
    if ft == "glb":
        out.update({12, 20, 19})
    return sorted(x for x in out if 0 <= x <= n)


class C20(World):
    ID = "C20"
    LEVEL = "fault_enumeration"
    RUNS = {"quick": 4000, "thorough": 300000}
    WALL = {"quick": 115.0, "thorough": 1700.0}
    BLOCK = 40
    BLOCK_TIMEOUT = 300
    WORKER_ADDRESS_SPACE = 10 * 2**30  # per worker: an endless read or a runaway allocation ends in MemoryError, not in a dead sandbox
    RULE = (
        "one evaluation = one valid payload (36 kind/format pipes, or one of ~90 small model files of the tree under test) + 2-8 load attempts each under one storage or stream fault (33 kinds; in the thorough "
        "tier truncation is enumerated at every offset for payloads <= 4 KiB) x 4 loader entry points x 3 transports; distinct_nontrivial counts distinct "
        "(format, fault kind, route, transport, outcome class) tuples observed"
    )
    SIM_UNIT = "Python line events executed inside trimesh and its dependencies during load attempts"
    LEVEL_TEXT = (
        "Fault injection on simulated storage and streams around the real loaders: systematic truncation at structure boundaries (every offset for small payloads in "
        "the thorough tier), bit/byte/numeric-field mutations biased into headers and length fields, chunk deletion/duplication/swap, lost (zero-filled) and torn (spliced) "
        "writes, garbage and format-token soup, missing/truncated/swapped side files, corrupt archives, content-level faults that survive the container (archive or GLB re-packed "
        "with one corrupted member and correct checksums; quoted tokens / numbers copied over each other to re-wire ids, references and counts, including reference cycles; glTF "
        "buffer-view / accessor layout fields set or inserted), EIO / early EOF / close under the reader, by file object and by "
        "path. Each attempt must return geometry or raise an ordinary Exception within fixed step and memory budgets proportional to the input, close every file it opened, "
        "and leave the process able to load a valid file. The worker that dies is attributed to its journalled run. Proportionality is also asked directly by a doubling "
        "experiment (documents of n, 2n, 4n independent trivial items, 20 families: the second increment of the line count must be about twice the first), and a CPU-timer "
        "backstop raises the budget exception inside loops the line counter cannot see (native code that runs for many CPU-seconds without one monitored line). Once per run, "
        "8 fixed CPU-time experiments (n and 16 n items, child interpreter) look for superlinear work done inside single lines."
    )
    LEVEL_NOTE = (
        "Step counting sees Python lines only (charset_normalizer, a chunk-sampling detector called by decode_text, is excluded for speed) (loops inside C extensions are bounded by the block wall-clock watchdog); memory is tracemalloc peak (numpy buffers included, "
        "private C allocations of lxml/zlib not). Third-party loaders (meshio, cascadio, openctm) are out of scope. Budgets: steps <= 150000 + 300*len, peak <= 48 MiB + 3000*len."
    )
    COMPONENTS = {
        "real": ["trimesh.load / load_mesh / load_scene / load_path", "every trimesh loader for STL/PLY/OBJ/OFF/GLB/glTF/3MF/DAE/XYZ/binvox/DXF/SVG/dict", "util.decompress", "resolvers", "json, zipfile, tarfile, lxml, pycollada, PIL, svg.path"],
        "simulated": ["storage bytes and side files", "file objects (SimFile with EIO/EOF/close faults)", "resolver", "builtins.open / io.open (tracked)", "clock of zipfile/tarfile", "uuid4", "np.random / random", "time = Python line events (sys.monitoring); NOT simulated: the process CPU clock read by the native-loop backstop (ITIMER_VIRTUAL) and by the ten fixed CPU-time experiments (time.process_time in a child interpreter)", "memory = tracemalloc"],
        "stubbed": [],
    }
    ASSUMPTIONS = ["budget constants were fixed from measurements on the unchanged tree (worst valid load: < 6 steps/byte + 8k, < 120 B/byte + 1.5 MiB)"]

    _mon = None
    _warm = False

    def _monitor(self):
        if C20._mon is None:
            import site

            import trimesh

            prefixes = [os.path.dirname(trimesh.__file__)] + list(site.getsitepackages()) + [os.path.dirname(os.__file__)]
            C20._mon = monitor.Monitor(prefixes, exclude=("/charset_normalizer/",))
        if not C20._warm:
            C20._warm = True
            self._warmup()
        return C20._mon

    def _warmup(self):
        """Load one valid payload per pipe with the monitors off so lazy imports never count as steps."""
        rng = _random.Random(12345)
        for kind, fmt in fw.ALL_PAIRS:
            try:
                r = fw.random_geometry_recipe(rng, kind)
                if kind == "mesh":
                    r["shape"], r["colors"] = "normal", "vertex"
                files, main, ft = fw.export_payload(fw.build_geometry(r), fmt)
                fw.load_payload(files, main, ft, route="load")
            except Exception:
                pass
        try:
            import PIL.Image  # noqa: F401
            import yaml  # noqa: F401
        except Exception:
            pass
        import io as _io

        import trimesh

        for ft in FOREIGN:
            try:
                with contextlib.redirect_stdout(_DEVNULL), contextlib.redirect_stderr(_DEVNULL):
                    trimesh.load(_io.BytesIO(b"warm up\n1 2 3\n"), file_type=ft)
            except BaseException:
                pass

    # ------------------------------------------------------------------ generation
    def swarm(self, rng):
        kind, fmt = rng.choice(fw.ALL_PAIRS)
        if rng.random() < 0.06:
            kind, fmt = "foreign", rng.choice(FOREIGN + ["3dxml", "xaml"])
        routes = {"foreign": ["load", "load_mesh", "load_scene"], "mesh": ["load", "load_mesh", "load_scene"], "scene": ["load", "load_scene", "load_mesh"], "points": ["load", "load_scene"], "path2d": ["load", "load_path", "load_scene"], "path3d": ["load", "load_scene"], "voxel": ["load"]}[kind]
        return {
            "kind": kind, "fmt": fmt, "routes": routes,
            "weights": swarm_weights(rng, FAULTS, keep_p=0.5, always=("truncate",)),
            "n_attempts": rng.choice([2, 3, 4, 6, 8]),
            "stack": rng.random() < 0.25,  # faults accumulate on the already corrupted bytes (multi-fault sequences)
            "enumerate_truncation": rng.random() < (0.02 if self.TIER == "quick" else 0.2),
        }

    def _gen_fault(self, rng, kind, fmt):
        f = {"kind": kind, "salt": rng.randrange(2**31), "fmt": fmt.split("_")[-1] if "_" in fmt and not fmt.endswith("ascii") else fmt.replace("_ascii", "")}
        header_bias = rng.random() < 0.5
        f["at"] = rng.randrange(512) if header_bias else rng.randrange(2**20)
        f["a"], f["b"] = rng.randrange(2**16), rng.randrange(2**16)
        f["oat"] = rng.randrange(2**16)
        f["bit"] = rng.randrange(8)
        f["val"] = rng.choice(["x10", "x1000", "two32", "two31", "neg", "zero", "one_more", "one_less", "huge"]) if kind in ("int_field", "u32_field") else rng.randrange(256)
        f["delta"] = rng.choice([1, -1, 128])
        f["j"] = rng.randrange(40)
        f["n"] = rng.randrange(4096)
        if kind == "truncate_boundary":
            f["bidx"] = rng.randrange(64)
        if kind == "len_field":
            f["lval"] = rng.choice(["x10", "x1000", "two32", "two31", "neg", "zero", "one_more", "one_less", "huge", "bit31", "bit31", "bit30", "bit28", "top7f", "top7f", "bit24"])
        if kind.startswith("stream_"):
            f["n"] = rng.choice([1, 1, 2, 3, 5, 9])
        if kind == "amplifier":
            from ..worlds import amplifiers

            subs = amplifiers.FAMILIES.get(fmt)
            if not subs:
                f["kind"] = "token_soup"  # no amplifier is known for this format
            else:
                f.update({"sub": rng.choice(subs), "a": rng.randrange(10**6), "b": rng.randrange(10**6), "fmt": fmt})
        if kind == "container_inner":
            ik = rng.choice(INNER_KINDS)
            f["inner"] = {"kind": ik, "salt": rng.randrange(2**31), "at": rng.randrange(2**16), "a": rng.randrange(2**16), "b": rng.randrange(2**16), "bit": rng.randrange(8), "j": rng.randrange(40),
                          "val": rng.choice(["x10", "x1000", "two32", "two31", "neg", "zero", "one_more", "one_less", "huge"]) if ik == "int_field" else rng.randrange(256)}
        return f

    def generate(self, rng, cfg):
        if cfg["kind"] == "foreign":
            ops = [{"op": "payload", "geom": {"kind": "foreign"}, "other": {"kind": "foreign"}, "rs": rng.randrange(2**31), "corpus": rng.randrange(2**16)}]
            for _ in range(cfg["n_attempts"]):
                kind = pick(rng, cfg["weights"])
                if kind not in FOREIGN_FAULTS and cfg["fmt"] not in FOREIGN_OWN:
                    # faults that blow up counts or sizes only measure somebody else's parser (71 s and 8.6 GB requested by a .msh reader)
                    kind = rng.choice(FOREIGN_FAULTS)
                ops.append({"op": "attempt", "fault": self._gen_fault(rng, kind, cfg["fmt"]), "route": rng.choice(cfg["routes"]), "transport": rng.choice(["bytesio", "simfile", "path"]), "odd_name": rng.random() < 0.06, "rs": rng.randrange(2**31)})
            return {"config": cfg, "ops": ops}
        geom, other = fw.random_geometry_recipe(rng, cfg["kind"]), fw.random_geometry_recipe(rng, cfg["kind"])
        for g in (geom, other):
            if str(g.get("shape", "")).startswith("large"):
                # the 67 600-vertex meshes are C08's business; here every fault needs many cheap attempts
                g["shape"], g["mesh"]["base"] = "normal", "icosa1"
        ops = [{"op": "payload", "geom": geom, "other": other, "rs": rng.randrange(2**31), "corpus": rng.randrange(2**16) if rng.random() < 0.2 else None}]
        for _ in range(cfg["n_attempts"]):
            kind = pick(rng, cfg["weights"])
            u = rng.random()
            if cfg["fmt"] in CONTAINERS and u < 0.35:
                # byte faults on a compressed container mostly end at the checksum: reach the parser behind it
                kind = "container_inner"
            elif cfg["fmt"] in TEXTUAL and u < 0.12:
                kind = "token_copy" if u < 0.08 else "json_field"
            elif cfg["fmt"] in ("gltf", "obj_mtl", "obj", "dae") and u < 0.2:
                kind = "uri_special"
            elif cfg["fmt"] in AMPLIFIED and u > 0.9:
                kind = "amplifier"
            ops.append({"op": "attempt", "fault": self._gen_fault(rng, kind, cfg["fmt"]), "route": rng.choice(cfg["routes"]), "transport": rng.choice(["bytesio", "simfile", "path"]), "odd_name": rng.random() < 0.06, "rs": rng.randrange(2**31)})
        fams = [k for k, (ft_, _) in amplifiers.LINEAR.items() if ft_ == FT_OF.get(cfg["fmt"], cfg["fmt"])]
        if fams and rng.random() < 0.06:
            # the doubling experiment: n, 2n and 4n independent trivial items
            ops.append({"op": "scaling", "family": rng.choice(fams), "n": rng.choice([60, 100, 150, 250]), "route": rng.choice(cfg["routes"]), "rs": rng.randrange(2**31)})
        ops.append({"op": "valid_after", "rs": rng.randrange(2**31)})
        return {"config": cfg, "ops": ops}

    # ------------------------------------------------------------------ execution
    def execute(self, program, ctx):
        cfg = program["config"]
        warm = C20._warm
        mon = self._monitor()
        if not warm:
            # the warm-up consumed uuid / RNG draws: put the seams back to the state every run starts from
            from ..core import seams

            seams.begin_run(program.get("seed", 0))
        scratch = tempfile.mkdtemp(prefix="verif-c20-")
        st = {"files": None}
        try:
            for step, op in enumerate(program["ops"]):
                ctx.step = step
                seed_lib_rng(op)
                try:
                    if op["op"] == "payload":
                        self._payload(op, cfg, st, ctx)
                    elif op["op"] == "attempt":
                        if st["files"] is None:
                            raise Inapplicable()
                        if cfg.get("enumerate_truncation") and op["fault"]["kind"] == "truncate" and len(st["files"][st["main"]]) <= (4096 if self.TIER == "thorough" else 1536) and not st.get("enumerated"):
                            st["enumerated"] = True  # once per run: every offset of the payload
                            for at in range(len(st["files"][st["main"]]) + 1):
                                self._attempt(dict(op, fault=dict(op["fault"], at=at)), cfg, st, scratch, mon, ctx)
                        else:
                            self._attempt(op, cfg, st, scratch, mon, ctx)
                    elif op["op"] == "scaling":
                        self._scaling(op, cfg, scratch, mon, ctx)
                    elif op["op"] == "scaling_cpu":
                        self._scaling_cpu(op, cfg, scratch, ctx)
                    elif op["op"] == "valid_after":
                        self._valid_after(cfg, st, scratch, mon, ctx)
                except Inapplicable:
                    ctx.count("skip:inapplicable")
        finally:
            shutil.rmtree(scratch, ignore_errors=True)

    def _payload(self, op, cfg, st, ctx):
        if op.get("corpus") is not None:
            got = fw.corpus_payload(cfg["fmt"], op["corpus"])
            if got is not None:
                return self._corpus_payload(got, op, cfg, st, ctx)
        if cfg["kind"] == "foreign":
            # no model file of this type in the tree: the starting point is a few lines of text
            main = "model." + cfg["fmt"]
            files = {main: b"# " + cfg["fmt"].encode() + b" 1.0\n3 1 0\n0 0 0\n1 0 0\n0 1 0\n3 0 1 2\n"}
            st.update({"files": dict(files), "main": main, "ft": cfg["fmt"], "pristine": dict(files), "want": None, "other": b""})
            ctx.count("op:payload:foreign:" + cfg["fmt"])
            ctx.event("payload-foreign", cfg["fmt"])
            return
        obj = fw.build_geometry(op["geom"], cfg["fmt"])
        if cfg["kind"] == "mesh" and op["geom"].get("shape") == "empty":
            op = dict(op, geom=dict(op["geom"], shape="normal"))
            obj = fw.build_geometry(op["geom"], cfg["fmt"])
        files, main, ft = fw.export_payload(obj, cfg["fmt"])
        if cfg["fmt"] in ("ply", "ply_ascii") and op["geom"].get("colors") == "texture" and b"end_header" in files[main]:
            # a PLY that names its texture image the way other programs do (a comment in the header), with the image beside it
            import io as _io

            from PIL import Image

            buf = _io.BytesIO()
            Image.new("RGB", (4, 4), (200, 30, 30)).save(buf, format="PNG")
            files = dict(files)
            files["texture_0.png"] = buf.getvalue()
            head, sep, rest = files[main].partition(b"\n")
            fmt_line, sep2, rest2 = rest.partition(b"\n")
            files[main] = head + sep + fmt_line + sep2 + b"comment TextureFile texture_0.png\n" + rest2
        st.update({"files": files, "main": main, "ft": ft, "pristine": dict(files), "want": fw.content(obj)})
        try:
            o2 = fw.build_geometry(op["other"], cfg["fmt"])
            f2, m2, _ = fw.export_payload(o2, cfg["fmt"])
            st["other"] = f2[m2]
        except Exception:
            st["other"] = b""
        ctx.count("op:payload:" + cfg["fmt"])
        if cfg["fmt"] != "dxf":  # DXF handles embed id(entity): never logged
            ctx.event("payload", cfg["fmt"], {k: v for k, v in sorted(files.items())})

    def _corpus_payload(self, got, op, cfg, st, ctx):
        """A model file of the tree under test as the valid payload: what a fault-free load returns now is what it must return after the faults."""
        files, main, ft, name = got
        try:
            with contextlib.redirect_stdout(_DEVNULL), contextlib.redirect_stderr(_DEVNULL):
                base = fw.load_payload(files, main, ft, route="load", transport="bytesio", kwargs={"process": False} if cfg["kind"] in ("mesh", "scene", "points") else {})[0]
            want = fw.content(fw.normalise_loaded(base, cfg["kind"])) if cfg["kind"] != "foreign" else None
        except (KeyboardInterrupt, MemoryError):
            raise
        except BaseException:
            # a model the loader does not accept as it stands (several are deliberately broken): still a good starting point for faults
            want = None
        st.update({"files": dict(files), "main": main, "ft": ft, "pristine": dict(files), "want": want, "other": b""})
        ctx.count("op:payload:corpus:" + cfg["fmt"])
        ctx.event("payload-corpus", cfg["fmt"], name, len(files[main]))

    def _faulted_files(self, op, cfg, st, ctx):
        f = op["fault"]
        files = dict(st["files"] if cfg.get("stack") else st["pristine"])
        main = st["main"]
        k = f["kind"]
        data = files[main]
        if k == "len_field":
            f = dict(f, ft=st["ft"])
        if k == "truncate_boundary":
            bs = boundaries(data, st["ft"])
            f = dict(f, at=bs[f.get("bidx", 0) % len(bs)])
        if k == "splice_other":
            # prefix of this format, suffix of a different one
            other = b"solid x\nfacet normal 0 0 1\nouter loop\nvertex 0 0 0\n" if st["ft"] != "stl" else b"ply\nformat ascii 1.0\nelement vertex 1\n"
        else:
            other = st.get("other", b"")
        sides = sorted(n for n in files if n != main)
        if k in ("side_missing", "side_truncated", "side_swapped"):
            if not sides:
                raise Inapplicable()
            s = sides[f.get("j", 0) % len(sides)]
            if k == "side_missing":
                del files[s]
            elif k == "side_truncated":
                files[s] = files[s][: f["at"] % (len(files[s]) + 1)]
            else:
                files[s] = data[: len(files[s])]
        else:
            files[main] = apply_fault(data, f, other)
        if cfg.get("stack") and k != "amplifier":
            # (an amplifier replaces the payload: it is not a corruption to build further corruptions on)
            st["files"] = dict(files)
        return files, f

    def _attempt(self, op, cfg, st, scratch, mon, ctx):
        files, f = self._faulted_files(op, cfg, st, ctx)
        main, ft = st["main"], st["ft"]
        kind = f["kind"]
        route, transport = op["route"], op["transport"]
        stream_fault = None
        if kind.startswith("stream_"):
            transport = "simfile"
            stream_fault = {"kind": {"stream_eio": "eio", "stream_eof": "eof", "stream_closed": "close"}[kind], "n": f.get("n", 1)}
        if kind == "uri_special" and ft not in ("dict", "dict64"):
            transport = "path"  # side files are then fetched by the file-system resolver
        if ft in ("dict", "dict64"):
            transport = "bytesio"
        if op.get("odd_name") and transport == "path" and len(files) == 1 and ft not in ("dict", "dict64"):
            # the file under a name no loader is registered for (an editor's backup copy): refused - and closed again
            files = {main + "~": files[main]}
            main = main + "~"
            ctx.count("fault:unregistered-extension")
        total = sum(len(v) for v in files.values())
        changed = files[main] != st["pristine"].get(st["main"]) or sorted(files) != sorted(st["pristine"])
        holder = {}

        def call():
            # (third-party readers print their complaints: keep them out of the check's output)
            # (restored by hand, in this file: contextlib lives in the standard library, whose lines are monitored - once the step
            #  budget is exhausted its __exit__ would be interrupted too and the streams would stay redirected)
            old = (sys.stdout, sys.stderr)
            sys.stdout = sys.stderr = _DEVNULL
            try:
                out, fobj = fw.load_payload(files, main, ft, route=route, transport=transport, scratch=scratch, fault=stream_fault)
            finally:
                sys.stdout, sys.stderr = old
            holder["fobj"] = fobj
            return out

        fid = AMP_FINDINGS.get(f.get("sub")) if kind == "amplifier" else None
        relaxed = fid is not None and ctx.is_known(fid)
        foreign = cfg["kind"] == "foreign" and cfg["fmt"] not in FOREIGN_OWN
        res = mon.run(call, budget_steps(total) * (100 if relaxed else (5 if foreign else 1)))
        ctx.steps_sim += res["steps"]
        fired = bool(changed) or (stream_fault is not None)
        ctx.count("op:attempt")
        if fired:
            ctx.count("fault:" + kind)
        outcome = res["outcome"]
        exc = res["exc"]
        exc_name = type(exc).__name__ if exc is not None else None
        if exc_name:
            ctx.count("exc:" + exc_name)
        ctx.count("outcome:" + outcome)
        # a request for gigabytes is refused (MemoryError) or granted and measured, depending on how much address space the worker
        # has left under RLIMIT_AS - that is history of the process, not of the run: both are logged as one class
        over = outcome == "memory-error" or res["peak"] > budget_mem(total)
        ctx.reach(cfg["fmt"], kind, route, transport, "over-memory" if over else (exc_name or "returned"))
        ctx.event("attempt", cfg["fmt"], kind, route, transport, "over-memory" if over else outcome, None if over else exc_name)
        label = f"{cfg['fmt']} {kind} via {route}/{transport} ({total} bytes)"
        if relaxed and outcome != "step-budget" and res["peak"] <= 20 * budget_mem(total) and (res["steps"] > budget_steps(total) or res["peak"] > budget_mem(total)):
            # the recorded finding reproduced with its predicted behaviour: it ends, at a polynomial cost
            ctx.finding(fid, f"{res['steps']} steps, {res['peak']} bytes for {total} bytes")
            res = dict(res, steps=0, peak=0, rss_delta=0)
        if foreign:
            # time and memory are spent inside a third-party parser trimesh only wraps: counted, not judged. What trimesh's wrapper
            # owns is judged: the kind of outcome, the files it opened, the descriptors, the temporary files.
            if outcome in ("step-budget", "memory-error") or res["steps"] > budget_steps(total) or res["peak"] > budget_mem(total):
                ctx.count("probe:third-party-parser-over-budget")
            if outcome in ("step-budget", "memory-error"):
                return
            res = dict(res, steps=0, peak=0, rss_delta=0)
        if outcome == "step-budget" or res["steps"] > budget_steps(total):
            ctx.fail("time", cfg["fmt"] + "-" + kind, f"{label}: {res['steps']} steps > budget {budget_steps(total)}: {exc}")
        fid3 = "C20-gltf-accessor-without-view-trusts-count"
        if (outcome == "memory-error" or res["peak"] > budget_mem(total)) and ctx.is_known(fid3) and not foreign:
            declared = gltf_unbacked_bytes(files, main)
            # (what is allocated is a small multiple of what is declared - converted copies of the zeros - so a declaration below the
            #  budget can still end above it: the declaration must explain the peak, it need not exceed the budget on its own)
            if declared > budget_mem(total) / 64 and (outcome == "memory-error" or res["peak"] <= 64 * declared + budget_mem(total)):
                # recorded finding: zeros are allocated for whatever count such an accessor declares
                ctx.finding(fid3, f"{declared} bytes declared by an accessor without a buffer view in {total} bytes: {outcome}, peak {res['peak']}")
                return
        if outcome == "memory-error":
            ctx.fail("memory", cfg["fmt"] + "-" + kind, f"{label}: MemoryError {exc}")
        if res["peak"] > budget_mem(total):
            ctx.fail("memory", cfg["fmt"] + "-" + kind, f"{label}: tracemalloc peak {res['peak']} > budget {budget_mem(total)}")
        # what tracemalloc saw is judged by the tracemalloc budget above: here only the growth it did not see (allocations of C libraries)
        if res.get("rss_delta", 0) - res.get("peak", 0) > RSS_A + RSS_B * total and not foreign:
            side = [2000, 5000, 8000][f.get("a", 0) % 3] if f.get("sub") == "glb_image_bomb" else 0
            fid2 = "C20-texture-decoded-when-scene-is-flattened"
            if side and route == "load_mesh" and ctx.is_known(fid2) and res["rss_delta"] <= RSS_A + 16 * side * side:
                # recorded finding: load_mesh flattens the scene, which copies every geometry, and copying a lazily opened PIL image
                # decodes it (twice the pixel data at most). By load / load_scene nothing is decoded, and that is still demanded.
                ctx.finding(fid2, f"{res['rss_delta']} bytes resident for a {side}x{side} texture in {total} bytes")
            else:
                ctx.fail("memory", cfg["fmt"] + "-" + kind + "-resident", f"{label}: resident memory grew by {res['rss_delta']} bytes over the call (budget {RSS_A + RSS_B * total})")
        if outcome == "base-exception":
            ctx.fail("outcome", cfg["fmt"] + "-" + kind, f"{label}: raised {exc_name} (not an ordinary Exception)")
        if outcome == "returned":
            v = res["value"]
            ok = v is None or hasattr(v, "vertices") or hasattr(v, "geometry") or isinstance(v, (list, tuple, dict)) or hasattr(v, "encoding")
            if not ok:
                ctx.fail("outcome", cfg["fmt"] + "-" + kind, f"{label}: returned {type(v).__name__}")
        if res["leaked"]:
            ctx.fail("handles", cfg["fmt"] + "-" + kind, f"{label}: file(s) opened during the call left open: {res['leaked']} after {outcome} {exc_name}")
        if res["fd_delta"] > 0:
            ctx.fail("handles", cfg["fmt"] + "-fd", f"{label}: {res['fd_delta']} descriptor(s) leaked after {outcome} {exc_name}")
        if transport == "path" and res["opened"] == 0 and ft not in ("dict", "dict64"):
            ctx.count("probe:path-load-opened-nothing")
        if transport == "path":
            ctx.count("probe:self-opened-files", res["opened"])

    def _scaling(self, op, cfg, scratch, mon, ctx):
        """'Within a bound proportional to the input size', asked directly: documents of n, 2n and 4n independent trivial items.
        Simulated time is a count of executed lines, so for a loader whose cost is proportional to its input the second increment
        is twice the first, exactly; with a quadratic term it tends to four times. More than 2.6 times (plus a slack of 20 000 lines) fails."""
        ft, build = amplifiers.LINEAR[op["family"]]
        n = int(op["n"])
        steps = []
        route = op["route"] if ft not in ("dxf", "svg") else "load_path"
        try:
            # a first small document, not measured: whatever the loader imports or builds once per process is paid here
            small = build(8)
            self._quiet(lambda: fw.load_payload({"model." + ft: small}, "model." + ft, ft, route=route, transport="bytesio", scratch=scratch))
        except Exception:
            pass
        for k in (n, 2 * n, 4 * n):
            doc = build(k)
            main = "model." + ft
            res = mon.run(lambda: self._quiet(lambda: fw.load_payload({main: doc}, main, ft, route=route, transport="bytesio", scratch=scratch)[0]), 40 * budget_steps(len(doc)))
            ctx.steps_sim += res["steps"]
            ctx.count("op:scaling-load")
            if res["outcome"] == "step-budget":
                ctx.fail("time", f"{ft}-scaling", f"{op['family']} with {k} items ({len(doc)} bytes) via {op['route']}: {res['steps']} steps and not finished")
            if res["outcome"] == "base-exception":
                ctx.fail("outcome", f"{ft}-scaling", f"{op['family']} with {k} items: raised {type(res['exc']).__name__}")
            steps.append(res["steps"])
        d1, d2 = steps[1] - steps[0], steps[2] - steps[1]
        ctx.count("check:scaling")
        ctx.reach(ft, "scaling", op["family"], op["route"], "superlinear" if d2 > 2.6 * d1 + 20000 else "linear")
        ctx.event("scaling", op["family"], n, d2 > 2.6 * d1 + 20000)
        if d2 > 2.6 * d1 + 20000:
            fid = SCALING_FINDINGS.get(op["family"])
            if fid and ctx.is_known(fid) and d2 <= 4.4 * d1 + 20000:
                ctx.finding(fid, f"{op['family']} n={n}: {steps}")
                return
            ctx.fail("time", f"{ft}-scaling", f"{op['family']} via {op['route']}: {n}, {2 * n}, {4 * n} items cost {steps} steps: the second increment is {d2 / max(d1, 1):.2f} times the first (proportional cost gives 2.00)")

    # families and base sizes of the CPU-time experiment (n and 16 n items; measured on the unchanged tree: ratio / 16 between 1.0 and 1.5)
    CPU_FAMILIES = [("obj_alternating_materials", 6000), ("3mf_objects", 4000), ("obj_same_names", 4000), ("obj_material_groups", 600), ("stl_same_names", 1500),
                    ("gltf_unnamed_meshes", 1500), ("dxf_lines", 3000), ("svg_paths", 1500), ("stl_empty_solids", 5000), ("off_comments", 4000)]

    def fixed_programs(self, tier):
        cfg = {"kind": "mesh", "fmt": "obj", "n_attempts": 0, "routes": ["load"], "weights": {}, "stack": False, "enumerate_truncation": False}
        return [("cpu-scaling-" + fam, {"config": cfg, "seed": 1, "ops": [{"op": "scaling_cpu", "family": fam, "n": n, "rs": 1}]}) for fam, n in self.CPU_FAMILIES]

    def _scaling_cpu(self, op, cfg, scratch, ctx):
        """The part of 'a bound proportional to the input size' that a count of executed lines cannot see: work done inside one
        line (a string grown by concatenation, a list searched again and again). The process's own CPU time for n and for 16 n
        independent trivial items, loader unmonitored, collector off: proportional cost gives a ratio of 16 (1.0 - 1.5 times that on
        the unchanged tree); more than 2.5 times that AND more than 3 CPU-seconds beyond it fails. Times never enter the event log."""
        import json as _json
        import subprocess

        ft, _build = amplifiers.LINEAR[op["family"]]
        n = int(op["n"])

        def measure():
            # in an interpreter of its own: no line monitor, no tracemalloc, nothing warmed up or left over by earlier runs
            env = dict(os.environ, PYTHONPATH=os.pathsep.join(p_ for p_ in sys.path if p_), PYTHONDONTWRITEBYTECODE="1")
            r = subprocess.run([sys.executable, "-c", _CPU_CHILD, op["family"], str(n)], env=env, capture_output=True, text=True, timeout=3600)
            line = [ln for ln in r.stdout.splitlines() if ln.startswith("TIMES ")]
            if not line:
                from ..core.engine import HarnessError

                raise HarnessError("cpu-scaling child gave no result: " + r.stderr[-800:])
            d = _json.loads(line[-1][6:])
            return max(float(d["t1"]), 1e-4), float(d["t16"])

        t1, t16 = measure()
        ctx.count("op:scaling-cpu")
        ctx.count("check:scaling-cpu")
        bad = t16 > 2.5 * 16 * t1 and t16 - 16 * t1 > 3.0
        if bad:
            # once more, to keep a hiccup of the machine out of the verdict
            t1b, t16b = measure()
            bad = t16b > 2.5 * 16 * t1b and t16b - 16 * t1b > 3.0
            t1, t16 = t1b, t16b
        ctx.reach(ft, "scaling-cpu", op["family"], "superlinear" if bad else "proportional")
        ctx.event("scaling_cpu", op["family"], n, bad)
        if bad:
            ctx.fail("time", f"{ft}-scaling-cpu", f"{op['family']}: {n} items take {t1:.3f} CPU-seconds, {16 * n} items {t16:.2f}: {t16 / t1 / 16:.1f} times the proportional cost")

    @staticmethod
    def _quiet(fn):
        old = (sys.stdout, sys.stderr)
        sys.stdout = sys.stderr = _DEVNULL
        try:
            return fn()
        finally:
            sys.stdout, sys.stderr = old

    def _valid_after(self, cfg, st, scratch, mon, ctx):
        """After the faults a valid file still loads to the right content in the same process."""
        if st["files"] is None:
            raise Inapplicable()
        files, main, ft = st["pristine"], st["main"], st["ft"]
        total = sum(len(v) for v in files.values())
        res = mon.run(lambda: fw.load_payload(files, main, ft, route="load", transport="bytesio", scratch=scratch, kwargs={"process": False} if cfg["kind"] in ("mesh", "scene", "points") else {})[0], budget_steps(total))
        ctx.steps_sim += res["steps"]
        ctx.count("check:valid-after")
        if st["want"] is None:
            # corpus model that does not load even unfaulted: only the resource oracles apply
            ctx.event("valid_after", cfg["fmt"], res["outcome"])
            return
        if res["outcome"] != "returned":
            ctx.fail("liveness", cfg["fmt"] + "-valid-after-faults", f"valid {cfg['fmt']} no longer loads after the fault sequence: {res['outcome']} {res['exc']}")
        if res["peak"] > budget_mem(total) or res["steps"] > budget_steps(total):
            ctx.fail("time", cfg["fmt"] + "-valid", f"valid load used {res['steps']} steps / {res['peak']} bytes for {total} bytes")
        got = fw.content(fw.normalise_loaded(res["value"], cfg["kind"]))
        want = st["want"]
        for key in ("tris", "pts", "tris_sorted", "filled"):
            if key in want and (key not in got or np.shape(got[key]) != np.shape(want[key])):
                ctx.fail("liveness", cfg["fmt"] + "-valid-content", f"valid load after faults returned different {key}: {np.shape(got.get(key))} vs {np.shape(want[key])}")
        ctx.event("valid_after", cfg["fmt"], res["outcome"])

    # ------------------------------------------------------------------ shrinking
    def finding_programs(self, known):
        geom = {"kind": "mesh", "salt": 1, "shape": "normal", "colors": None, "attributes": False, "mesh": {"base": "tetra", "variant": "plain", "salt": 1, "jitter": 0.03, "offset": [0.0, 0.0, 0.0], "size": 1.0}}
        progs = []
        g0 = geom
        cfg0 = {"kind": "mesh", "fmt": "glb", "routes": ["load_mesh"], "weights": {"amplifier": 1.0}, "n_attempts": 1, "stack": False, "enumerate_truncation": False}
        progs.append(("C20-texture-decoded-when-scene-is-flattened", {"config": cfg0, "seed": 1, "ops": [
            {"op": "payload", "geom": g0, "other": g0, "rs": 1, "corpus": None},
            {"op": "attempt", "fault": {"kind": "amplifier", "sub": "glb_image_bomb", "a": 2, "b": 0, "fmt": "glb", "salt": 1, "at": 0}, "route": "load_mesh", "transport": "bytesio", "rs": 2}]}))
        cfg1 = {"kind": "mesh", "fmt": "gltf", "routes": ["load"], "weights": {"unbacked_accessor": 1.0}, "n_attempts": 1, "stack": False, "enumerate_truncation": False}
        progs.append(("C20-gltf-accessor-without-view-trusts-count", {"config": cfg1, "seed": 1, "ops": [
            {"op": "payload", "geom": g0, "other": g0, "rs": 1, "corpus": None},
            {"op": "attempt", "fault": {"kind": "unbacked_accessor", "salt": 1, "at": 0, "fmt": "gltf"}, "route": "load", "transport": "bytesio", "rs": 2}]}))
        for fmt, sub, a, b in (("dxf", "dxf_flat", 120, 120), ("3mf", "3mf_chain_deep", 0, 0), ("bz2_stl", "bz2_bomb", 1, 0)):
            kind = "path2d" if fmt == "dxf" else "mesh"
            g = {"kind": "path2d", "salt": 1, "shape": "square"} if fmt == "dxf" else geom
            cfg = {"kind": kind, "fmt": fmt, "routes": ["load"], "weights": {"amplifier": 1.0}, "n_attempts": 1, "stack": False, "enumerate_truncation": False}
            fault = {"kind": "amplifier", "sub": sub, "a": a, "b": b, "fmt": fmt, "salt": 1, "at": 0}
            progs.append((AMP_FINDINGS[sub], {"config": cfg, "seed": 1, "ops": [{"op": "payload", "geom": g, "other": g, "rs": 1, "corpus": None}, {"op": "attempt", "fault": fault, "route": "load", "transport": "bytesio", "rs": 2}, {"op": "valid_after", "rs": 3}]}))
        return progs

    def simplify_op(self, op):
        out = []
        if op["op"] == "attempt":
            if op["transport"] != "bytesio" and not op["fault"]["kind"].startswith("stream_"):
                out.append(dict(op, transport="bytesio"))
            if op["route"] != "load":
                out.append(dict(op, route="load"))
        if op["op"] == "payload":
            g = op["geom"]
            if g.get("kind") == "mesh" and (g["mesh"].get("base") != "tetra" or g.get("colors") or g.get("shape") != "normal"):
                out.append(dict(op, geom=dict(g, colors=None, shape="normal", mesh=dict(g["mesh"], base="tetra", offset=[0.0, 0.0, 0.0], size=1.0))))
        return out

    def simplify_program(self, program):
        cfg = program["config"]
        out = []
        if cfg.get("stack"):
            out.append(dict(program, config=dict(cfg, stack=False)))
        return out


def _mut_never_close():
    from trimesh.exchange import load

    orig = load._parse_file_args

    def pfa(*a, **k):
        arg = orig(*a, **k)
        try:
            arg.was_opened = False
        except Exception:
            pass
        return arg

    load._parse_file_args = pfa
    return lambda: setattr(load, "_parse_file_args", orig)


def _mut_off_spins():
    import trimesh
    from trimesh.exchange import load

    orig = load.mesh_loaders["off"]
    # compiled under the library's file name so that its lines are simulated time like any loader code
    src = (
        "def off(file_obj, *a, **k):\n"
        "    data = file_obj.read()\n"
        "    file_obj.seek(0)\n"
        "    if len(data) < 40:\n"
        "        i = 0\n"
        "        while True:\n"
        "            try:\n"
        "                i += 1\n"
        "            except BaseException:\n"
        "                pass\n"
        "    return orig(file_obj, *a, **k)\n"
    )
    ns = {"orig": orig}
    exec(compile(src, os.path.join(os.path.dirname(trimesh.__file__), "exchange", "off.py"), "exec"), ns)
    load.mesh_loaders["off"] = ns["off"]
    return lambda: load.mesh_loaders.__setitem__("off", orig)


def _mut_stl_trusts_count():
    from trimesh.exchange import load

    orig = load.mesh_loaders["stl"]

    def stl(file_obj, *a, **k):
        head = file_obj.read(84)
        file_obj.seek(0)
        if len(head) == 84 and not head.lstrip().lower().startswith(b"solid"):
            count = int.from_bytes(head[80:84], "little")
            np.zeros(count, dtype=[("n", "<f4", 3), ("v", "<f4", (3, 3)), ("a", "<u2")])  # allocate before validating
        return orig(file_obj, *a, **k)

    load.mesh_loaders["stl"] = stl
    return lambda: load.mesh_loaders.__setitem__("stl", orig)


C20.MUTANTS = {"self-opened-file-never-closed": _mut_never_close, "off-scanner-never-advances-on-short-input": _mut_off_spins, "stl-allocates-from-count-before-length-check": _mut_stl_trusts_count}

WORLD = C20()
