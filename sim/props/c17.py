"""
C17 - copies are faithful and share no mutable state with the original.

Two-object machine: build an object in a seeded state (pre-reads so caches are populated), copy it
by a seeded route (copy(), copy(include_cache=True), copy.copy, copy.deepcopy), then edit either side
step by step and observe both sides. Oracle: at copy time the copy equals the original on every
public value; afterwards each side equals its own independently built twin, to which the same edits
are applied - a leak through shared state makes the un-edited side diverge from its twin.
"""
import copy as pycopy

import numpy as np

from ..core.engine import HarnessError, Inapplicable, seed_lib_rng
from ..core.world import World, pick, swarm_weights
from ..worlds import matrices as mx
from ..worlds import meshes
from .c01 import same

KINDS = ["mesh", "mesh_texture", "primitive", "path2d", "path3d", "points", "scene", "voxel"]
ROUTES = {
    "mesh": ["copy", "copy_cache", "copy.copy", "copy.deepcopy", "copy_novisual"],
    "mesh_texture": ["copy", "copy_cache", "copy.copy", "copy.deepcopy"],
    "primitive": ["copy", "copy.copy", "copy.deepcopy"],
    "path2d": ["copy", "copy.copy", "copy.deepcopy"],
    "path3d": ["copy", "copy.copy", "copy.deepcopy"],
    "points": ["copy", "copy.copy", "copy.deepcopy"],
    "scene": ["copy", "copy.copy", "copy.deepcopy"],
    "voxel": ["copy", "copy.copy", "copy.deepcopy"],
}
PRIMS = ["Box", "Sphere", "Cylinder", "Capsule", "Extrusion"]


def _img(salt):
    from PIL import Image

    r = np.random.RandomState(salt % (2**32))
    return Image.fromarray(r.randint(0, 256, (4, 4, 3), dtype=np.uint8))


def _meta(salt):
    return {"name": f"obj{salt % 97}", "nested": {"list": [1, 2, {"deep": [salt % 7]}], "arr": [0.5, 1.5]}, "tags": ["a", "b"]}


# ----------------------------------------------------------------------------- builders (also used for twins)
def build(kind, r):
    """Build an object from a JSON recipe. Building twice gives two objects that share nothing."""
    import trimesh

    rs = np.random.RandomState(r["salt"] % (2**32))
    if kind in ("mesh", "mesh_texture"):
        V, F = meshes.build(r["mesh"])
        m = trimesh.Trimesh(vertices=V, faces=F, process=False)
        if kind == "mesh_texture":
            uv = np.round(rs.uniform(0, 1, (len(V), 2)), 4)
            mat = trimesh.visual.material.SimpleMaterial(image=_img(r["salt"]), diffuse=[200, 100, 50, 255]) if r.get("material") != "pbr" else trimesh.visual.material.PBRMaterial(baseColorTexture=_img(r["salt"]), baseColorFactor=[200, 100, 50, 255], metallicFactor=0.25, emissiveFactor=[0.1, 0.2, 0.3])
            m.visual = trimesh.visual.TextureVisuals(uv=uv, material=mat)
            if r.get("uv2"):
                m.visual.vertex_attributes["uv_1"] = np.round(rs.uniform(0, 1, (len(V), 2)), 4)
        elif r.get("colors") == "vertex":
            m.visual.vertex_colors = np.column_stack([rs.randint(0, 256, (len(V), 3)), np.full(len(V), 255)]).astype(np.uint8)
        elif r.get("colors") == "face":
            m.visual.face_colors = np.column_stack([rs.randint(0, 256, (len(F), 3)), np.full(len(F), 255)]).astype(np.uint8)
        if r.get("attributes"):
            m.face_attributes["fa"] = np.arange(len(F), dtype=np.float64) * 0.5
            m.vertex_attributes["va"] = np.arange(len(V) * 2, dtype=np.float64).reshape(-1, 2)
        if r.get("density"):
            m.density = r["density"]
        if r.get("center_mass"):
            m.center_mass = r["center_mass"]
        m.metadata.update(_meta(r["salt"]))
        return m
    if kind == "primitive":
        P = trimesh.primitives
        T = mx.hom(mx.rodrigues([0.3, 0.5, 0.8], 0.7), [0.5, -1.0, 2.0]) if r.get("placed") else None
        cls = r["prim"]
        if cls == "Box":
            p = P.Box(extents=r["extents"], transform=T)
        elif cls == "Sphere":
            p = P.Sphere(radius=r["radius"], center=[0.5, -1.0, 2.0] if r.get("placed") else None, subdivisions=r["subdivisions"])
        elif cls == "Cylinder":
            p = P.Cylinder(radius=r["radius"], height=r["height"], transform=T, sections=r["sections"])
        elif cls == "Capsule":
            p = P.Capsule(radius=r["radius"], height=r["height"], transform=T, sections=r["sections"])
        else:
            from shapely.geometry import Polygon

            shell = [(0, 0), (2, 0), (2.3, 1.2), (1, 2), (-0.2, 1)]
            holes = [[(0.6, 0.5), (1.2, 0.5), (1.0, 1.1)]] if r.get("hole") else []
            p = P.Extrusion(polygon=Polygon(shell, holes), height=r["height"], transform=T)
        if r.get("density"):
            p.density = r["density"]
        p.metadata.update(_meta(r["salt"]))
        return p
    if kind in ("path2d", "path3d"):
        from trimesh.path.entities import Arc, BSpline, Line, Text

        sq = np.array([[0, 0], [2, 0], [2, 1.5], [0, 1.5]], dtype=float) + rs.uniform(-0.05, 0.05, (4, 2))
        circ = np.array([3.0, 0.5]) + 0.75 * np.array([[1, 0], [0, 1], [-1, 0], [0, -1]], dtype=float)
        V = np.vstack([sq, circ])
        ents = [Line([0, 1, 2]), Line([2, 3, 0]), Arc([4, 5, 6]), Arc([6, 7, 4])]
        ents[0].color = [255, 0, 0, 255]
        ents[1].layer = "layer_b"
        more = []
        if r.get("extras"):
            # entities that carry more than vertex references: a knot vector, an alignment pair
            V = np.vstack([V, np.array([[5, 0], [5.5, 1], [6.5, 1], [7, 0], [4, 3]], dtype=float) + rs.uniform(-0.05, 0.05, (5, 2))])
            more = [BSpline(points=[8, 9, 10, 11], knots=[0.0, 0.0, 0.0, 0.0, 1.0, 1.0, 1.0, 1.0]), Text(origin=12, text="label", align=["center", "center"], height=0.3)]
        if kind == "path3d":
            V = np.column_stack([V, rs.uniform(-0.2, 0.2, len(V))])
            p = trimesh.path.Path3D(entities=ents[:2] + more[:1], vertices=V, process=False)
        else:
            p = trimesh.path.Path2D(entities=ents + more, vertices=V, process=False)
        if r.get("acolors"):
            # colours assigned as one array: every entity then holds an array, not a list
            p.colors = np.column_stack([rs.randint(0, 256, (len(p.entities), 3)), np.full(len(p.entities), 255)]).astype(np.uint8)
        p.metadata.update(_meta(r["salt"]))
        if r.get("vattr"):
            p.vertex_attributes["width"] = np.arange(len(V), dtype=np.float64) * 0.125
        return p
    if kind == "points":
        V = np.round(rs.uniform(-2, 2, (7, 3)), 4)
        pc = trimesh.PointCloud(vertices=V, colors=np.column_stack([rs.randint(0, 256, (7, 3)), np.full(7, 255)]).astype(np.uint8) if r.get("colors") else None)
        pc.metadata.update(_meta(r["salt"]))
        return pc
    if kind == "scene":
        sc = trimesh.Scene()
        V, F = meshes.build(r["mesh"])
        g0 = trimesh.Trimesh(vertices=V, faces=F, process=False)
        V2, F2 = meshes.build(dict(r["mesh"], base="tetra"))
        g1 = trimesh.Trimesh(vertices=V2, faces=F2, process=False)
        g1.visual.face_colors = np.column_stack([rs.randint(0, 256, (len(F2), 3)), np.full(len(F2), 255)]).astype(np.uint8)
        sc.add_geometry(g0, node_name="a", geom_name="g0", transform=mx.hom(mx.rodrigues([0, 0, 1], 0.5), [1, 0, 0]), **({"metadata": {"serial": 0, "history": ["root part"]}} if r.get("edge_meta", True) else {}))
        sc.add_geometry(g1, node_name="b", geom_name="g1", parent_node_name="a", transform=mx.hom(None, [0, 2, 0]), **({"metadata": {"serial": 1, "history": ["made"]}} if r.get("edge_meta", True) else {}))
        sc.graph.update(frame_to="c", frame_from="b", matrix=mx.hom(mx.rodrigues([1, 0, 0], 0.3), [0, 0, 1.5]), geometry="g0")
        if r.get("points"):
            sc.add_geometry(trimesh.PointCloud(np.round(rs.uniform(-1, 1, (4, 3)), 3)), node_name="p", geom_name="pc")
        sc.metadata.update(_meta(r["salt"]))
        if r.get("repair", "default") != "default":
            # the graph's tolerance for repairing nearly rigid products is a setting of the graph; with it, an edge that is a few
            # parts per million off rigid (read back differently under different settings)
            sc.graph.repair_rigid = r["repair"]
            sc.graph.update(frame_to="d", frame_from="a", matrix=mx.hom(mx.rodrigues([0, 1, 0], 0.8) * (1.0 + 3e-6), [40.0, -25.0, 10.0]), geometry="g1")
        if r.get("camera"):
            from trimesh.scene.cameras import Camera

            if r.get("camera") == "focal":
                # a camera defined by its focal length (the field of view is then the derived quantity, and follows the resolution)
                sc.camera = Camera(name="cam", resolution=(320, 240), focal=(400.0, 380.0), z_near=0.05, z_far=500.0)
            else:
                sc.camera = Camera(name="cam", resolution=(320, 240), fov=(50.0, 40.0), z_near=0.05, z_far=500.0)
            sc.camera_transform = mx.hom(mx.rodrigues([0, 1, 0], 0.4), [0.5, 0.25, 6.0])
        if r.get("lights"):
            from trimesh.scene import lighting

            sc.lights = [lighting.PointLight(name="lamp", color=[255, 200, 100, 255], intensity=3.5), lighting.SpotLight(name="spot", color=[10, 20, 30, 255], intensity=1.5, innerConeAngle=0.2, outerConeAngle=0.6)]
            sc.graph.update(frame_to="lamp", frame_from="world", matrix=mx.hom(None, [0.0, 3.0, 1.0]))
            sc.graph.update(frame_to="spot", frame_from="a", matrix=mx.hom(mx.rodrigues([1, 0, 0], 0.9), [1.0, 1.0, 1.0]))
        return sc
    if kind == "voxel":
        from trimesh.voxel import encoding as enc

        n = 3
        dense = rs.uniform(size=(n, n, n + 1)) < 0.5
        dense[0, 0, 0] = True
        if r.get("margin"):
            dense[-1] = False
            dense[:, :, 0] = False
            dense[0, 1, 1] = True
        e = r.get("encoding", "dense")
        if e == "dense":
            en = enc.DenseEncoding(dense)
        elif e == "sparse":
            en = enc.SparseBinaryEncoding(np.column_stack(np.nonzero(dense)), shape=dense.shape)
        elif e == "rle_transposed":
            # what the binvox reader hands out: run lengths, reshaped, then transposed
            en = enc.RunLengthEncoding(trimesh.voxel.runlength.dense_to_rle(dense.transpose((2, 0, 1)).reshape(-1), dtype=np.int64), dtype=bool).reshape((dense.shape[2], dense.shape[0], dense.shape[1])).transpose((1, 2, 0))
        elif e == "sparse_transposed":
            # (flipped wrappers are left out: FlippedEncoding.sparse_indices raises on the unmodified tree, which is not a copy question)
            en = enc.SparseBinaryEncoding(np.column_stack(np.nonzero(dense.transpose((1, 0, 2)))), shape=(dense.shape[1], dense.shape[0], dense.shape[2])).transpose((1, 0, 2))
        else:
            en = enc.RunLengthEncoding(trimesh.voxel.runlength.dense_to_rle(dense.reshape(-1), dtype=np.int64), dtype=bool).reshape(dense.shape)
        T = np.diag([0.5, 0.5, 0.5, 1.0])
        T[:3, 3] = [1.0, -2.0, 0.25]
        v = trimesh.voxel.VoxelGrid(en, transform=T, metadata=_meta(r["salt"]))
        return v
    raise ValueError(kind)


# ----------------------------------------------------------------------------- observation
def _plain(x):
    """Metadata and parameters as plain python (deep)."""
    if isinstance(x, dict):
        return {str(k): _plain(v) for k, v in sorted(x.items(), key=lambda kv: str(kv[0]))}
    if isinstance(x, (list, tuple)):
        return [_plain(v) for v in x]
    if isinstance(x, np.ndarray):
        return x.tolist()
    if isinstance(x, (np.floating, np.integer, np.bool_)):
        return x.item()
    if hasattr(x, "tobytes") and hasattr(x, "size") and not isinstance(x, np.ndarray):
        return {"image": list(x.size), "bytes": np.asarray(x).tolist()}
    return x


def _visual(m):
    v = m.visual
    out = {"kind": v.kind}
    if v.kind in ("vertex", "face"):
        out["vertex_colors" if v.kind == "vertex" else "face_colors"] = np.array(v.vertex_colors if v.kind == "vertex" else v.face_colors)
        # the colours of the other kind are derived values the object has (or will have) computed: they are its own too
        out["derived_face_colors" if v.kind == "vertex" else "derived_vertex_colors"] = np.array(v.face_colors if v.kind == "vertex" else v.vertex_colors)
    elif v.kind == "texture":
        out["uv"] = np.array(v.uv)
        out["channels"] = {str(k): np.array(val) for k, val in v.vertex_attributes.items() if str(k) != "uv"}
        mat = v.material
        out["material"] = type(mat).__name__
        out["main_color"] = np.array(mat.main_color)
        img = getattr(mat, "image", None)
        if img is None:
            img = getattr(mat, "baseColorTexture", None)
        if img is not None:
            out["image"] = np.asarray(img).copy()
        if hasattr(mat, "metallicFactor"):
            out["metallic"] = mat.metallicFactor
            out["emissive"] = None if mat.emissiveFactor is None else np.array(mat.emissiveFactor)
            out["base_color"] = None if mat.baseColorFactor is None else np.array(mat.baseColorFactor)
        for name in ("diffuse", "ambient", "specular"):
            if hasattr(mat, name) and getattr(mat, name) is not None:
                out[name] = np.array(getattr(mat, name))
    return out


# switched on for the rest of a run once the caller has edited an object it was handed by a mesh (see derived_object_edit)
OBSERVE_DERIVED_OBJECTS = [False]


def observe(kind, o, deep=True):
    """Every public value the statement speaks about, as plain data."""
    import trimesh

    if kind in ("mesh", "mesh_texture"):
        out = {"vertices": np.array(o.vertices), "faces": np.array(o.faces), "visual": _visual(o), "metadata": _plain({k: v for k, v in o.metadata.items() if k != "processed"}),
               "face_attributes": {k: np.array(v) for k, v in o.face_attributes.items()}, "vertex_attributes": {k: np.array(v) for k, v in o.vertex_attributes.items()},
               "density_override": _plain(o._data.data.get("density")), "center_mass_override": _plain(o._data.data.get("center_mass"))}
        if deep and len(o.faces):
            out.update({"area": float(o.area), "bounds": np.array(o.bounds), "face_normals": np.array(o.face_normals), "volume": float(o.volume), "edges_unique": np.array(o.edges_unique), "vertex_normals": np.array(o.vertex_normals), "centroid": np.array(o.centroid)})
        if deep and OBSERVE_DERIVED_OBJECTS[0] and kind == "mesh" and len(o.vertices) >= 4:
            # the objects a mesh hands out (its hull, its vertex graph): each mesh has its own
            try:
                hull = o.convex_hull
                out["hull"] = [float(hull.volume), np.array(hull.bounds)]
            except (KeyboardInterrupt, SystemExit, MemoryError):
                raise
            except Exception as e:
                out["hull"] = type(e).__name__
            try:
                out["graph_edges"] = int(o.vertex_adjacency_graph.number_of_edges())
            except (KeyboardInterrupt, SystemExit, MemoryError):
                raise
            except Exception as e:
                out["graph_edges"] = type(e).__name__
        return out
    if kind == "primitive":
        d = o.to_dict()
        out = {"params": _plain({k: v for k, v in d.items()}), "class": type(o).__name__, "vertices": np.array(o.vertices), "faces": np.array(o.faces), "metadata": _plain(dict(o.metadata)), "density_override": _plain(o._data.data.get("density")), "visual": _visual(o)}
        for extra in ("sections", "subdivisions"):
            try:
                out[extra] = _plain(getattr(o.primitive, extra))
            except Exception:
                pass
        if deep:
            out.update({"volume": float(o.volume), "bounds": np.array(o.bounds), "area": float(o.area)})
        return out
    if kind in ("path2d", "path3d"):
        out = {"vertices": np.array(o.vertices), "entities": [{"type": type(e).__name__, "points": np.array(e.points).tolist(), "closed": bool(e.closed), "color": _plain(e.color), "layer": e.layer, "knots": _plain(getattr(e, "knots", None)), "align": _plain(getattr(e, "align", None)) if type(e).__name__ == "Text" else None} for e in o.entities], "metadata": _plain(dict(o.metadata)),
               "vertex_attributes": {k: np.array(v) for k, v in o.vertex_attributes.items()}}
        if deep:
            out.update({"length": float(o.length), "bounds": np.array(o.bounds), "n_paths": len(o.paths)})
            if kind == "path2d":
                out["area"] = float(o.area)
        return out
    if kind == "points":
        out = {"vertices": np.array(o.vertices), "colors": np.array(o.colors) if o.colors is not None else None, "metadata": _plain(dict(o.metadata)), "bounds": np.array(o.bounds) if len(o.vertices) else None}
        if deep and len(o.vertices) >= 5:
            hull = o.convex_hull
            out["hull"] = [float(hull.volume), np.array(hull.bounds)]
            out["kdtree"] = np.array(o.kdtree.query(np.array([[0.1, 0.2, 0.3], [-1.0, 1.0, 0.5]]))[0])
        return out
    if kind == "scene":
        out = {"repair_rigid": o.graph.repair_rigid, "edges": sorted((a, b, np.round(np.array(attr.get("matrix", np.eye(4))), 12).tolist(), attr.get("geometry"), repr(_plain(attr.get("metadata")))) for a, b, attr in o.graph.to_edgelist()), "base": o.graph.base_frame, "metadata": _plain(dict(o.metadata)), "geometry": {}}
        for name, g in o.geometry.items():
            gk = "mesh" if isinstance(g, trimesh.Trimesh) else "points"
            out["geometry"][name] = observe(gk, g, deep=False)
        if o.has_camera:
            cam = o.camera
            out["camera"] = {"name": cam.name, "resolution": np.array(cam.resolution), "fov": np.array(cam.fov), "focal": np.array(cam.focal), "z_near": float(cam.z_near), "z_far": float(cam.z_far), "transform": np.array(o.camera_transform)}
        if getattr(o, "_lights", None) is not None:
            # (explicitly assigned lights only: reading `lights` on a scene without any generates some and adds nodes)
            out["lights"] = [{"type": type(L).__name__, "name": L.name, "color": np.array(L.color), "intensity": float(L.intensity), "cone": [float(getattr(L, "innerConeAngle", 0.0)), float(getattr(L, "outerConeAngle", 0.0))]} for L in o.lights]
        if deep and len(o.geometry):
            out["bounds"] = np.array(o.bounds)
            out["nodes_geometry"] = sorted(o.graph.nodes_geometry)
        return out
    if kind == "voxel":
        return {"shape": list(o.shape), "transform": np.array(o.transform), "dense": np.array(o.encoding.dense), "points": np.array(o.points), "filled_count": int(o.filled_count), "metadata": _plain(dict(o.metadata)), "encoding": type(o.encoding).__name__, "volume": float(o.volume)}
    raise ValueError(kind)


PREREADS = {
    "mesh": ["face_normals", "vertex_normals", "area", "bounds", "edges_unique", "face_adjacency", "volume", "kdtree", "vertex_adjacency_graph", "triangles_tree", "convex_hull", "visual_colors", "smooth_shaded"],
    "mesh_texture": ["face_normals", "area", "bounds", "visual_uv", "volume"],
    "primitive": ["vertices", "face_normals", "volume", "bounds", "area"],
    "path2d": ["paths", "discrete", "polygons_full", "area", "length", "bounds", "enclosure_directed"],
    "path3d": ["paths", "discrete", "length", "bounds"],
    "points": ["bounds", "convex_hull", "kdtree"],
    "scene": ["bounds", "triangles", "area", "nodes_geometry", "geometry_face_normals", "hull"],
    "voxel": ["points", "sparse_indices", "filled_count", "volume", "bounds"],
}


def preread(kind, o, name):
    if name == "visual_colors":
        return o.visual.face_colors, o.visual.vertex_colors
    if name == "visual_uv":
        return o.visual.uv
    if name == "geometry_face_normals":
        return [g.face_normals for g in o.geometry.values() if hasattr(g, "face_normals")]
    if name == "hull":
        return o.convex_hull
    return getattr(o, name)


# ----------------------------------------------------------------------------- edits
EDITS = {
    "mesh": ["v_item", "v_iadd", "f_flip", "apply_transform", "apply_scale", "color_item", "meta_nested", "meta_new", "attr_item", "density", "center_mass", "update_faces", "invert", "merge_vertices", "assign_vertices", "v_sort", "visual_assign", "color_other_item", "derived_object_edit"],
    "mesh_texture": ["v_item", "apply_transform", "uv_item", "material_color", "image_pixel", "meta_nested", "update_faces", "material_color_inplace", "uv2_item"],
    "primitive": ["param_set", "param_inplace", "transform_inplace", "apply_transform", "apply_scale", "meta_nested", "density", "apply_translation"],
    "path2d": ["v_item", "entity_points", "entity_color", "entity_layer", "apply_transform", "meta_nested", "entity_reverse", "v_iadd", "vattr_item", "entity_color_inplace", "entity_knots_inplace", "entity_align_inplace"],
    "path3d": ["v_item", "entity_points", "entity_color", "entity_layer", "apply_transform", "meta_nested", "v_iadd", "vattr_item", "entity_color_inplace", "entity_knots_inplace"],
    "points": ["v_item", "color_item", "apply_transform", "meta_nested", "v_iadd", "assign_fewer", "color_single"],
    "scene": ["edge_update", "geom_v_item", "geom_transform", "add_geometry", "delete_geometry", "meta_nested", "graph_setitem", "geom_color", "edge_meta_inplace", "geom_color_other", "camera_param", "camera_move", "light_param"],
    "voxel": ["apply_transform", "apply_scale", "transform_inplace", "meta_nested", "encoding_item", "encoding_flat_inplace", "strip"],
}


def apply_edit(kind, o, e):
    """Apply one edit to an object (original, copy or a twin). All arguments come from the op."""
    import trimesh

    k = e["edit"]
    i, d = e.get("i", 0), e.get("d", 0.25)
    M = np.array(e["matrix"]) if "matrix" in e else None
    if k == "meta_nested":
        o.metadata["nested"]["list"][2]["deep"].append(e.get("i", 0))
        o.metadata["nested"]["arr"][0] = d
        return
    if k == "meta_new":
        o.metadata["added"] = {"x": [d]}
        return
    if kind in ("mesh", "mesh_texture"):
        nv, nf = len(o.vertices), len(o.faces)
        if k == "v_item":
            o.vertices[i % nv, i % 3] += d
        elif k == "v_iadd":
            o.vertices[:] += d
        elif k == "v_sort":
            o.vertices.sort(axis=0)
        elif k == "assign_vertices":
            o.vertices = np.array(o.vertices) * (1.0 + d)
        elif k == "f_flip":
            o.faces[i % nf] = o.faces[i % nf][::-1].copy()
        elif k == "apply_transform":
            o.apply_transform(M)
        elif k == "apply_scale":
            o.apply_scale(1.0 + d)
        elif k == "color_item":
            if o.visual.kind == "face":
                o.visual.face_colors[i % nf] = [1, 2, 3, 255]
            elif o.visual.kind == "vertex":
                o.visual.vertex_colors[i % nv] = [1, 2, 3, 255]
            else:
                o.visual.face_colors = np.tile([9, 8, 7, 255], (nf, 1))
        elif k == "color_other_item":
            # in-place edit of the derived colours (face-coloured mesh: its vertex colours, and the reverse); trimesh promotes them to stored data
            if o.visual.kind == "face":
                o.visual.vertex_colors[i % nv] = [1, 2, 3, 255]
            elif o.visual.kind == "vertex":
                o.visual.face_colors[i % nf] = [1, 2, 3, 255]
            else:
                raise Inapplicable()
        elif k == "visual_assign":
            o.visual.vertex_colors = np.tile([(i * 7) % 256, 8, 7, 255], (nv, 1))
        elif k == "attr_item":
            if "fa" not in o.face_attributes:
                raise Inapplicable()
            o.face_attributes["fa"][i % nf] = -d
            o.vertex_attributes["va"][i % nv, 0] = -d
        elif k == "density":
            o.density = 1.0 + d
        elif k == "center_mass":
            o.center_mass = [d, -d, 2 * d]
        elif k == "update_faces":
            mask = np.ones(nf, dtype=bool)
            mask[i % nf] = False
            o.update_faces(mask)
        elif k == "derived_object_edit":
            # a careless caller edits an object the mesh handed out: the hull is stretched, an edge is cut out of the vertex graph
            if len(o.vertices) < 4 or not len(o.faces):
                raise Inapplicable()
            OBSERVE_DERIVED_OBJECTS[0] = True
            if i % 2:
                o.convex_hull.apply_scale(1.5)
            else:
                g = o.vertex_adjacency_graph
                g.remove_edge(*next(iter(g.edges())))
        elif k == "invert":
            o.invert()
        elif k == "merge_vertices":
            o.merge_vertices(merge_norm=True, merge_tex=True)
        elif k == "uv_item":
            o.visual.uv[i % nv, 0] += d
        elif k == "uv2_item":
            if "uv_1" not in o.visual.vertex_attributes:
                raise Inapplicable()
            o.visual.vertex_attributes["uv_1"][i % nv, 1] += d
        elif k == "material_color":
            mat = o.visual.material
            if hasattr(mat, "diffuse"):
                mat.diffuse = [i % 256, 5, 6, 255]
            else:
                mat.baseColorFactor = [i % 256, 5, 6, 255]
        elif k == "material_color_inplace":
            # edit the colour arrays the material hands out, in place
            mat = o.visual.material
            arr = mat.baseColorFactor if hasattr(mat, "baseColorFactor") else mat.diffuse
            if e.get("which", 0) % 2 and getattr(mat, "emissiveFactor", None) is not None:
                arr = mat.emissiveFactor
            try:
                arr[i % 3] = (arr[i % 3] + 7) if arr.dtype.kind in "ui" else (float(arr[i % 3]) + d)
            except ValueError:
                raise Inapplicable()  # a read-only array cannot leak either
        elif k == "image_pixel":
            mat = o.visual.material
            img = getattr(mat, "image", None) or getattr(mat, "baseColorTexture", None)
            img.putpixel((i % 4, (i // 4) % 4), (1, 2, 3))
        else:
            raise Inapplicable()
        return
    if kind == "primitive":
        prim = o.primitive
        if k == "param_set":
            if hasattr(prim, "radius") and e.get("which", 0) % 2 == 0:
                prim.radius = float(prim.radius) * (1.0 + d)
            elif hasattr(prim, "height"):
                prim.height = float(prim.height) * (1.0 + d)
            elif hasattr(prim, "extents"):
                prim.extents = np.array(prim.extents) * [1.0 + d, 1.0, 1.0 - d / 2]
            else:
                prim.radius = float(prim.radius) * (1.0 + d)
        elif k == "param_inplace":
            if hasattr(prim, "extents"):
                prim.extents[i % 3] *= 1.0 + d
            else:
                raise Inapplicable()
        elif k == "transform_inplace":
            prim.transform[:3, 3] += d
        elif k == "apply_transform":
            o.apply_transform(M)
        elif k == "apply_translation":
            o.apply_translation([d, 0, -d])
        elif k == "apply_scale":
            if type(o).__name__ == "Extrusion":
                raise Inapplicable()
            o.apply_scale(1.0 + d)
        elif k == "density":
            o.density = 1.0 + d
        else:
            raise Inapplicable()
        return
    if kind in ("path2d", "path3d"):
        nv = len(o.vertices)
        ent = o.entities[i % len(o.entities)]
        if k == "v_item":
            o.vertices[i % nv, 0] += d
        elif k == "v_iadd":
            o.vertices[:] += d
        elif k == "entity_points":
            # re-point the middle of a polyline at another vertex (a pure reversal would leave the entity hash unchanged
            # while the traversal direction memoised on the entity goes stale: that is C14's business, not a sharing question)
            if type(ent).__name__ != "Line" or len(ent.points) < 3:
                raise Inapplicable()
            ent.points[1] = (int(ent.points[1]) + 1 + i % 2) % nv
        elif k == "entity_reverse":
            raise Inapplicable()
        elif k == "vattr_item":
            if "width" not in o.vertex_attributes:
                raise Inapplicable()
            o.vertex_attributes["width"][i % nv] = -d
        elif k == "entity_color":
            ent.color = [i % 256, 1, 2, 255]
        elif k == "entity_color_inplace":
            if not isinstance(ent.color, np.ndarray):
                raise Inapplicable()
            ent.color[:3] = [i % 256, 1, 2]
        elif k == "entity_knots_inplace":
            sp = [x for x in o.entities if type(x).__name__ == "BSpline"]
            if not sp:
                raise Inapplicable()
            sp[0].knots[4] = 0.25 + 0.5 * ((i % 7) / 7.0)
        elif k == "entity_align_inplace":
            tx = [x for x in o.entities if type(x).__name__ == "Text"]
            if not tx:
                raise Inapplicable()
            tx[0].align[i % 2] = ["left", "right", "top", "bottom"][i % 4]
        elif k == "entity_layer":
            ent.layer = f"L{i}"
        elif k == "apply_transform":
            if kind == "path2d":
                # a planar similarity (arcs are not covariant under anything else)
                th, sc = e.get("theta", 0.5), e.get("s2", 1.0)
                M2 = np.array([[sc * np.cos(th), -sc * np.sin(th), M[0, 3]], [sc * np.sin(th), sc * np.cos(th), M[1, 3]], [0.0, 0.0, 1.0]])
                o.apply_transform(M2)
            else:
                o.apply_transform(M)
        else:
            raise Inapplicable()
        return
    if kind == "points":
        n = len(o.vertices)
        if k == "v_item":
            o.vertices[i % n, 1] += d
        elif k == "v_iadd":
            o.vertices[:] += d
        elif k == "color_item":
            if o.colors is None or len(o.colors) != n:
                raise Inapplicable()
            o.colors[i % n] = [1, 2, 3, 255]
        elif k == "assign_fewer":
            if n < 4:
                raise Inapplicable()
            o.vertices = np.array(o.vertices)[: n - 2]
        elif k == "color_single":
            # one colour for the whole cloud: as many rows as the cloud has points NOW
            o.colors = [i % 256, 2, 3, 255]
        elif k == "apply_transform":
            o.apply_transform(M)
        else:
            raise Inapplicable()
        return
    if kind == "scene":
        if k == "edge_update":
            o.graph.update(frame_to="b", frame_from="a", matrix=M)
        elif k == "graph_setitem":
            o.graph["a"] = M
        elif k in ("geom_v_item",) and "g0" not in o.geometry or k in ("geom_transform", "geom_color", "geom_color_other") and "g1" not in o.geometry:
            raise Inapplicable()
        elif k == "geom_v_item":
            g = o.geometry["g0"]
            g.vertices[i % len(g.vertices), 2] += d
        elif k == "geom_transform":
            o.geometry["g1"].apply_transform(M)
        elif k == "geom_color":
            o.geometry["g1"].visual.face_colors[i % len(o.geometry["g1"].faces)] = [1, 2, 3, 255]
        elif k == "geom_color_other":
            g = o.geometry["g1"]
            if g.visual.kind == "face":
                g.visual.vertex_colors[i % len(g.vertices)] = [1, 2, 3, 255]
            elif g.visual.kind == "vertex":
                g.visual.face_colors[i % len(g.faces)] = [1, 2, 3, 255]
            else:
                raise Inapplicable()
        elif k in ("camera_param", "camera_move"):
            if not o.has_camera:
                raise Inapplicable()
            if k == "camera_move":
                o.camera_transform = M
            elif e.get("which", 0) % 3 == 0:
                o.camera.fov = [30.0 + 10 * d, 25.0]
            elif e.get("which", 0) % 3 == 1:
                o.camera.z_far = 100.0 * (1 + d)
            else:
                o.camera.resolution = [64 + i % 64, 48]
        elif k == "light_param":
            if getattr(o, "_lights", None) is None:
                raise Inapplicable()
            L = o.lights[i % len(o.lights)]
            if e.get("which", 0) % 3 == 1:
                L.intensity = 1.0 + d
            elif e.get("which", 0) % 3 == 2:
                # the colour array the light hands out, edited in place
                L.color[:3] = [i % 256, 7, 5]
            else:
                L.color = [i % 256, 9, 9, 255]
        elif k == "edge_meta_inplace":
            attr = o.graph.transforms.edge_data.get(("a", "b"))
            if attr is None or not isinstance(attr.get("metadata"), dict) or "history" not in attr["metadata"]:
                raise Inapplicable()
            attr["metadata"]["serial"] = i
            attr["metadata"]["history"].append(f"rework{i}")
        elif k == "add_geometry":
            if "extra" in o.geometry:
                raise Inapplicable()
            o.add_geometry(trimesh.Trimesh(vertices=[[0, 0, 0], [1, 0, 0], [0, 1, 0]], faces=[[0, 1, 2]], process=False), node_name="extra_node", geom_name="extra", transform=M)
        elif k == "delete_geometry":
            if "g1" not in o.geometry:
                raise Inapplicable()
            o.delete_geometry("g1")
        else:
            raise Inapplicable()
        return
    if kind == "voxel":
        if k == "apply_transform":
            o.apply_transform(M)
        elif k == "apply_scale":
            o.apply_scale(1.0 + d)
        elif k == "transform_inplace":
            T = o.transform
            try:
                T[:3, 3] += d
            except ValueError:
                # a read-only matrix: in-place editing is refused, which certainly cannot leak
                raise Inapplicable()
        elif k == "strip":
            # empty planes at the borders dropped (the grid keeps its cells where they were)
            o.strip()
        elif k == "encoding_flat_inplace":
            # the array at the bottom of a lazily reshaped / transposed encoding (run lengths, sparse indices), edited in place
            e = o.encoding
            for _ in range(6):
                inner = getattr(e, "_data", None)
                if isinstance(inner, np.ndarray) or inner is None:
                    break
                e = inner
            data = getattr(e, "_data", None)
            if not isinstance(data, np.ndarray) or data.ndim == 3 or data.size < 4:
                raise Inapplicable()
            try:
                if data.ndim == 1:
                    # run-length code [value, count, value, count ...]: exchange the values of the first two runs
                    a, b = data[0].copy(), data[2].copy()
                    data[0], data[2] = b, a
                else:
                    # sparse indices (n, 3): move one filled cell to a corner that is certainly inside the grid
                    data[i % len(data)] = 0
            except ValueError:
                raise Inapplicable()
        elif k == "encoding_item":
            data = getattr(o.encoding, "data", None)
            if not isinstance(data, np.ndarray) or data.dtype != bool or data.ndim != 3:
                raise Inapplicable()
            try:
                data[i % data.shape[0], 0, 0] = not data[i % data.shape[0], 0, 0]
            except ValueError:
                raise Inapplicable()
            # the grid memoises derived values keyed on its encoding: tell it through the public hook if there is one
        else:
            raise Inapplicable()
        return
    raise Inapplicable()


def do_copy(kind, o, route):
    if route == "copy":
        return o.copy()
    if route == "copy_cache":
        return o.copy(include_cache=True)
    if route == "copy_novisual":
        return o.copy(include_visual=False)
    if route == "copy.copy":
        return pycopy.copy(o)
    if route == "copy.deepcopy":
        return pycopy.deepcopy(o)
    raise Inapplicable()


class C17(World):
    ID = "C17"
    RUNS = {"quick": 60000, "thorough": 1500000}
    WALL = {"quick": 110.0, "thorough": 1700.0}
    BLOCK = 40
    RULE = (
        "one evaluation = one object of 8 kinds (mesh with colour visuals/attributes/overrides, textured mesh, 5 primitive classes with non-default parameters, "
        "2D/3D path with entity colours and layers, coloured point cloud, nested instanced scene, voxel grid in 3 encodings) in a seeded cache state, copied by one of up to 5 routes, "
        "then 1-5 edits of either side with both sides observed after each; distinct_nontrivial counts distinct (kind/class, copy route, edit kind, edited side, pre-read set hash) tuples"
    )
    SIM_UNIT = "edits applied and observations compared"
    LEVEL_TEXT = (
        "Seeded search over two-object histories: the copy must equal the original on every public value at copy time (geometry, parameters, visuals incl. texture image and material, "
        "attributes, overrides, nested metadata, scene graph), and after every subsequent edit of either side both sides must equal their own independently rebuilt twins to which the same "
        "edits were applied - so any state shared between a copy and its original shows up as a divergence of the side that was not edited. Exploration over sampled objects, routes and edit sequences."
    )
    LEVEL_NOTE = "Trusted: the builders (two calls build two unrelated objects) and the observation function. Mutating a value returned from a cache (e.g. the networkx graph of a cached copy) is not an edit of the geometry and is not generated."
    COMPONENTS = {
        "real": ["Trimesh/Primitive/Path2D/Path3D/PointCloud/Scene/VoxelGrid copy(), __copy__, __deepcopy__", "ColorVisuals/TextureVisuals/material copy", "SceneGraph.copy", "Entity.copy", "encoding copy"],
        "simulated": ["the history of edits and observations", "np.random / random / uuid4 (seeded)"],
        "stubbed": [],
    }
    ASSUMPTIONS = ["copy(include_visual=False) is compared without visuals"]

    def swarm(self, rng):
        kind = rng.choice(KINDS)
        return {"kind": kind, "route": rng.choice(ROUTES[kind]), "weights": swarm_weights(rng, EDITS[kind], keep_p=0.7), "n_edits": rng.choice([1, 2, 3, 5] if self.TIER != "thorough" else [2, 3, 5, 8, 12]),
                "prereads": sorted(rng.sample(PREREADS[kind], rng.randint(0, len(PREREADS[kind]))))}

    def _recipe(self, rng, kind):
        r = {"salt": rng.randrange(2**31)}
        if kind in ("mesh", "mesh_texture", "scene"):
            r["mesh"] = meshes.random_recipe(rng, bases=["tetra", "box", "octa", "icosa", "prism5"], variants=["plain", "plain", "dup_vertices"])
        if kind == "mesh":
            r.update({"colors": rng.choice([None, "vertex", "face"]), "attributes": rng.random() < 0.5, "density": rng.choice([None, 2.5]), "center_mass": rng.choice([None, [0.1, 0.2, 0.3]])})
        if kind == "mesh_texture":
            r["material"] = rng.choice(["simple", "pbr"])
            r["uv2"] = rng.random() < 0.5
        if kind == "primitive":
            r.update({"prim": rng.choice(PRIMS), "placed": rng.random() < 0.6, "extents": [round(rng.uniform(0.5, 3), 3) for _ in range(3)], "radius": round(rng.uniform(0.4, 2.5), 3), "height": round(rng.uniform(0.5, 4), 3),
                      "sections": rng.choice([3, 5, 8, 32]), "subdivisions": rng.choice([0, 1, 2]), "hole": rng.random() < 0.5, "density": rng.choice([None, 2.5])})
        if kind == "points":
            r["colors"] = rng.random() < 0.7
        if kind == "scene":
            r["points"] = rng.random() < 0.4
            r["edge_meta"] = rng.random() < 0.7
            r["camera"] = rng.choice([None, None, None, "fov", "focal"])
            r["lights"] = rng.random() < 0.3
            r["repair"] = rng.choice(["default", "default", None, 1e-3, 1e-7])
        if kind in ("path2d", "path3d"):
            r["vattr"] = rng.random() < 0.5
            r["extras"] = rng.random() < 0.5
            r["acolors"] = rng.random() < 0.4
        if kind == "voxel":
            r["encoding"] = rng.choice(["dense", "sparse", "rle", "rle_transposed", "sparse_transposed"])
            r["margin"] = rng.random() < 0.6
        return r

    def generate(self, rng, cfg):
        kind = cfg["kind"]
        ops = [{"op": "build", "recipe": self._recipe(rng, kind), "rs": rng.randrange(2**31)}]
        for name in cfg["prereads"]:
            ops.append({"op": "preread", "name": name, "rs": rng.randrange(2**31)})
        if rng.random() < 0.4:
            ops.append(self._gen_edit(rng, kind, cfg, "pre"))
        ops.append({"op": "copy", "route": cfg["route"], "rs": rng.randrange(2**31), "quiet": rng.random() < 0.5, "twice": rng.random() < 0.15})
        for _ in range(cfg["n_edits"]):
            ops.append(self._gen_edit(rng, kind, cfg, rng.choice(["original", "copy"])))
            if rng.random() < 0.3:
                ops.append({"op": "preread", "name": rng.choice(PREREADS[kind]), "side": rng.choice(["original", "copy"]), "rs": rng.randrange(2**31)})
        return {"config": cfg, "ops": ops}

    def _gen_edit(self, rng, kind, cfg, side):
        e = {"op": "edit", "side": side, "edit": pick(rng, cfg["weights"]), "i": rng.randrange(1000), "d": round(rng.uniform(0.15, 0.6), 3), "which": rng.randrange(4), "rs": rng.randrange(2**31)}
        cls = rng.choice(["rigid", "translation", "rigid"]) if kind in ("primitive", "voxel") else rng.choice(["rigid", "similarity", "translation"])
        e["matrix"] = mx.make(rng, cls).tolist()
        e["cls"] = cls
        e["theta"] = round(rng.uniform(0.2, 2.9), 4)
        e["s2"] = rng.choice([1.0, 1.0, round(mx.rand_scale(rng), 3)])
        return e

    # ------------------------------------------------------------------ execution
    def _eq(self, ctx, kind, got_obj, want_obj, oracle, what, route=None):
        try:
            got = observe(kind, got_obj)
        except (KeyboardInterrupt, SystemExit, MemoryError):
            raise
        except BaseException as e:
            # does the reference object, which shares nothing with anybody, answer? If it raises the same way the state itself cannot
            # be observed (derived vertex colours of a mesh whose last face was removed: AssertionError) - not a sharing question
            try:
                observe(kind, want_obj)
            except (KeyboardInterrupt, SystemExit, MemoryError):
                raise
            except BaseException as e2:
                if type(e2) is type(e):
                    ctx.count("skip:state-cannot-be-observed")
                    return
            ctx.fail(oracle, what + "-observe-raises", f"{type(e).__name__}: {e}")
        want = observe(kind, want_obj)
        for key in getattr(self, "_ignore_keys", ()):
            got.pop(key, None)
            want.pop(key, None)
        if route == "copy_novisual":
            got.pop("visual", None)
            want.pop("visual", None)
        # vertex normals: a nearly cancelling weighted sum is unitised, so transported and recomputed values differ by ~1e-8
        vg, vw = got.pop("vertex_normals", None), want.pop("vertex_normals", None)
        bad = same(got, want, 1e-9, what) or (same(vg, vw, 1e-6, what + ".vertex_normals") if vg is not None and vw is not None else None)
        ctx.count("check:" + oracle)
        if bad:
            ctx.fail(oracle, what.split(".")[0], bad)

    def execute(self, program, ctx):
        cfg = program["config"]
        kind = cfg["kind"]
        OBSERVE_DERIVED_OBJECTS[0] = False
        self._ignore_keys = set()
        orig = twin_o = cp = twin_c = None
        recipe = None
        pre_edits = []
        route = None
        cls = kind
        for step, op in enumerate(program["ops"]):
            ctx.step = step
            seed_lib_rng(op)
            k = op["op"]
            try:
                if k == "build":
                    recipe = op["recipe"]
                    orig = build(kind, recipe)
                    cls = kind + (":" + recipe.get("prim", "") if kind == "primitive" else "") + (":" + recipe.get("encoding", "") if kind == "voxel" else "")
                elif orig is None:
                    raise Inapplicable()
                elif k == "preread":
                    target = orig if (cp is None or op.get("side", "original") == "original") else cp
                    try:
                        preread(kind, target, op["name"])
                    except (KeyboardInterrupt, SystemExit, MemoryError):
                        raise
                    except BaseException as e:
                        ctx.count("exc:" + type(e).__name__)
                    ctx.count("op:preread")
                elif k == "edit" and cp is None:
                    if op["edit"] == "derived_object_edit":
                        # before there is a copy this only spoils the original's own memo (what a mesh reports after its hull was
                        # scribbled on is C01's question); sharing can only be asked once there are two objects
                        raise Inapplicable()
                    apply_edit(kind, orig, op)
                    pre_edits.append(op)
                    ctx.count("op:pre-edit")
                elif k == "copy":
                    if cp is not None:
                        raise Inapplicable()
                    route = op["route"]
                    # independent twins: rebuilt from the recipe, pre-copy edits replayed
                    twin_o, twin_c = build(kind, recipe), build(kind, recipe)
                    for e in pre_edits:
                        apply_edit(kind, twin_o, e)
                        apply_edit(kind, twin_c, e)
                    # (one in-place colour edit before a quiet copy is fine; with two of them the lazily promoted colours of
                    #  ColorVisuals depend on what was read in between - a read-history question, see DESIGN section 9)
                    quiet = bool(op.get("quiet")) and sum(e["edit"] in ("color_other_item", "geom_color_other", "color_item", "geom_color") for e in pre_edits) <= 1
                    if not quiet:
                        self._eq(ctx, kind, twin_o, orig, "harness", "twin-vs-original")
                    # (quiet: nothing is read from the original between its last edit and the copy, so a copy that hands over
                    #  memoised values without verifying them shows)
                    # the copy's twin goes through the same reads as everything else (lazy promotion of edited derived colours
                    # depends on what was read: a read-history question, not a sharing question)
                    observe(kind, twin_c)
                    try:
                        cp = do_copy(kind, orig, route)
                        if op.get("twice"):
                            cp = do_copy(kind, cp, route)  # a copy of a copy is a copy
                    except (KeyboardInterrupt, SystemExit, MemoryError):
                        raise
                    except BaseException as e:
                        ctx.fail("copy", "raises", f"{route} of {cls}: {type(e).__name__}: {e}")
                    ctx.count("op:copy:" + route)
                    if type(cp) is not type(orig):
                        ctx.fail("faithful", "type", f"{route} of {type(orig).__name__} gave {type(cp).__name__}")
                    # phase 1: faithful
                    self._eq(ctx, kind, cp, orig, "faithful", f"{cls}/{route}", route)
                    self._eq(ctx, kind, orig, twin_o, "faithful", f"{cls}/{route}/original-after-copy")
                    if route == "copy_novisual":
                        twin_c.visual = type(twin_c.visual)() if hasattr(twin_c, "visual") else None
                elif k == "edit":
                    side = op["side"]
                    target, twin = (orig, twin_o) if side == "original" else (cp, twin_c)
                    outcome = []
                    for obj in (twin, target):
                        try:
                            apply_edit(kind, obj, op)
                            outcome.append("ok")
                        except Inapplicable:
                            if obj is target and outcome:
                                outcome.append("inapplicable")
                                break
                            raise
                        except (KeyboardInterrupt, SystemExit, MemoryError):
                            raise
                        except BaseException as e:
                            outcome.append(type(e).__name__)
                            ctx.count("exc:" + type(e).__name__)
                    if outcome[0] != outcome[-1]:
                        ctx.fail("isolated", "edit-outcome", f"{cls}/{route}: {op['edit']} on {side}: twin -> {outcome[0]}, object -> {outcome[-1]}")
                    ctx.count("op:edit:" + op["edit"])
                    ctx.steps_sim += 1
                    ctx.reach(cls, route, op["edit"], side, len(cfg["prereads"]))
                    ctx.event(step, op["edit"], side)
                    fid = "C17-shallow-copy-shares-memoised-objects"
                    if op["edit"] == "derived_object_edit" and route in ("copy.copy", "copy_cache") and outcome[-1] == "ok" and ctx.is_known(fid):
                        # recorded finding: copy.copy(mesh) / copy(include_cache=True) hand the SAME memoised objects (hull mesh, vertex
                        # graph) to the copy - documented ("shallow copy cached data") and asserted by the repository's own test_copy.
                        # Predicted: the untouched side differs from its twin in exactly those objects and shows the edited side's values.
                        other, other_twin = (cp, twin_c) if side == "original" else (orig, twin_o)
                        go, wo, ge = observe(kind, other), observe(kind, other_twin), observe(kind, target)
                        differ = [key for key in wo if same(go.get(key), wo[key], 1e-9, key)]
                        if differ and set(differ) <= {"hull", "graph_edges"} and not any(same(go[key], ge[key], 1e-9, key) for key in differ):
                            ctx.finding(fid, f"{route}: {differ} of the {'copy' if side == 'original' else 'original'} follow an edit of the other's")
                            self._ignore_keys |= {"hull", "graph_edges"}
                    # phase 2: each side equals its own twin
                    self._eq(ctx, kind, orig, twin_o, "isolated", f"{cls}/{route}/original-after-{op['edit']}-on-{side}", None)
                    self._eq(ctx, kind, cp, twin_c, "isolated", f"{cls}/{route}/copy-after-{op['edit']}-on-{side}", route)
            except Inapplicable:
                ctx.count("skip:inapplicable")
                continue
        ctx.event("final", cls, route)

    def finding_programs(self, known):
        recipe = {"attributes": False, "center_mass": None, "colors": None, "density": None, "salt": 1, "mesh": {"base": "octa", "jitter": 0.03, "offset": [0.0, 0.0, 0.0], "salt": 1, "size": 1.0, "variant": "plain"}}
        edit = {"op": "edit", "side": "copy", "edit": "derived_object_edit", "i": 1, "d": 0.3, "which": 0, "rs": 1, "matrix": np.eye(4).tolist(), "cls": "translation", "theta": 0.5, "s2": 1.0}
        return [("C17-shallow-copy-shares-memoised-objects", {"config": {"kind": "mesh", "n_edits": 1, "prereads": ["convex_hull"], "route": "copy.copy", "weights": {}}, "seed": 1, "ops": [
            {"op": "build", "recipe": recipe, "rs": 1}, {"op": "preread", "name": "convex_hull", "rs": 1}, {"op": "copy", "route": "copy.copy", "rs": 1, "quiet": False, "twice": False}, edit]})]

    # ------------------------------------------------------------------ shrinking
    def simplify_op(self, op):
        out = []
        if op["op"] == "edit" and op.get("cls") != "translation":
            out.append(dict(op, matrix=mx.hom(None, [1.0, 0.0, 0.0]).tolist(), cls="translation"))
        if op["op"] == "build":
            r = op["recipe"]
            if r.get("mesh", {}).get("base") not in (None, "tetra"):
                out.append(dict(op, recipe=dict(r, mesh=dict(r["mesh"], base="tetra", variant="plain", offset=[0.0, 0.0, 0.0], size=1.0))))
            for key in ("colors", "attributes", "density", "center_mass", "placed", "hole", "points"):
                if r.get(key):
                    out.append(dict(op, recipe=dict(r, **{key: None})))
        return out


def _mut_mesh_copy_shares_data():
    import trimesh
    orig = trimesh.Trimesh.copy

    def copy(self, include_cache=False, include_visual=True):
        c = orig(self, include_cache=include_cache, include_visual=include_visual)
        c._data.data["faces"] = self._data.data["faces"]
        return c

    trimesh.Trimesh.copy = copy
    return lambda: setattr(trimesh.Trimesh, "copy", orig)


def _mut_color_copy_shares():
    from trimesh.visual.color import ColorVisuals
    orig = ColorVisuals.copy

    def copy(self):
        c = ColorVisuals()
        self.face_colors  # noqa: B018
        self.vertex_colors  # noqa: B018
        c._data.data = dict(self._data.data)
        return c

    ColorVisuals.copy = copy
    return lambda: setattr(ColorVisuals, "copy", orig)


def _mut_path_copy_shares_entities():
    import trimesh
    P = trimesh.path.path.Path
    orig = P.copy

    def copy(self):
        c = orig(self)
        c.entities = np.array(list(self.entities))
        return c

    P.copy = copy
    return lambda: setattr(P, "copy", orig)


def _mut_scene_graph_shared():
    import trimesh
    S = trimesh.Scene
    orig = S.copy

    def copy(self):
        c = orig(self)
        c.graph.transforms.edge_data = self.graph.transforms.edge_data
        return c

    S.copy = copy
    return lambda: setattr(S, "copy", orig)


C17.MUTANTS = {"mesh-copy-shares-faces-array": _mut_mesh_copy_shares_data, "color-visual-copy-shares-arrays": _mut_color_copy_shares, "path-copy-shares-entities": _mut_path_copy_shares_entities, "scene-copy-shares-edge-data": _mut_scene_graph_shared}

WORLD = C17()
