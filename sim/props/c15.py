"""
C15 - primitives are valid solids with analytic measures and always reflect their current
parameters (narrowed to the stateful clause, see DESIGN).

Parameter-edit machine: construct a primitive, then interleave reads (so the lazily created mesh
exists before the edit), parameter assignments, in-place parameter edits, placements, copies and
rejected edits. Oracle after every step: parameter model + validity + analytic measures + a freshly
constructed primitive with the model's parameters.
"""
import copy as pycopy
import math

import numpy as np

from ..core.engine import Inapplicable, seed_lib_rng
from ..core.world import World, pick, swarm_weights
from ..worlds import matrices as mx
from .c01 import same
from .c04 import _index_manifold, inertia_com
from .c10 import tri_area, tri_volume

KINDS = ["Box", "Sphere", "Cylinder", "Capsule", "Extrusion"]
OPS = ["set_param", "inplace_param", "set_transform", "inplace_transform", "set_center", "apply_transform", "apply_translation", "apply_scale", "read", "copy", "to_mesh",
       "bad_attribute", "bad_transform", "cache_clear", "mirror_transform", "set_param_pair", "negate_height", "param_there_and_back", "height_minus_one_two", "caller_edits_its_arrays", "slide", "buffer"]
READS = ["vertices", "faces", "volume", "area", "bounds", "face_normals", "moment_inertia", "is_watertight", "center_mass", "triangles"]
SHELL = [(0, 0), (2, 0), (2.3, 1.2), (1, 2), (-0.2, 1)]
HOLES = [[(0.6, 0.5), (1.2, 0.5), (1.0, 1.1)], [(1.4, 1.0), (1.8, 1.0), (1.6, 1.3)]]
# the outline at several sizes: coordinates that are short decimals, and coordinates that need every digit of a double
PSCALES = [1.0, 1.0, 0.7312345678901, 12.3456789012345]


def outline(m):
    k = float(m.get("pscale", 1.0))
    return [(x * k, y * k) for x, y in SHELL], [[(x * k, y * k) for x, y in hh] for hh in HOLES[: m["holes"]]]


def _azimuths(L):
    """Number of distinct directions around the local z axis among the given (off-axis) points."""
    if not len(L):
        return 0
    a = np.sort(np.mod(np.arctan2(L[:, 1], L[:, 0]), 2 * math.pi))
    gaps = np.diff(np.concatenate([a, [a[0] + 2 * math.pi]]))
    return int((gaps > 1e-6).sum())


def poly_area(pts):
    p = np.asarray(pts, dtype=float)
    x, y = p[:, 0], p[:, 1]
    return 0.5 * abs(float(np.dot(x, np.roll(y, -1)) - np.dot(y, np.roll(x, -1))))


def poly_perimeter(pts):
    p = np.asarray(pts, dtype=float)
    return float(np.linalg.norm(p - np.roll(p, -1, axis=0), axis=1).sum())


def construct(kind, m, src=None):
    """A brand-new primitive from model parameters. With `src`, the arrays handed to the constructor are kept there (the caller's own
    arrays, which the caller may go on using)."""
    import trimesh

    P = trimesh.primitives
    T = np.array(m["transform"], dtype=float)
    if src is not None:
        src["transform"] = T
    pure_translation = bool(np.array_equal(T[:3, :3], np.eye(3)))
    if kind == "Box":
        if m.get("ctor") == "alt" and pure_translation:
            # the other documented way to say where a box is: its axis-aligned corners
            e = np.array(m["extents"], dtype=float)
            return P.Box(bounds=np.array([T[:3, 3] - e / 2, T[:3, 3] + e / 2]))
        if src is not None:
            src["extents"] = np.array(m["extents"], dtype=float)
            return P.Box(extents=src["extents"], transform=T)
        return P.Box(extents=list(m["extents"]), transform=T)
    if kind == "Sphere":
        if m.get("ctor") == "alt" and pure_translation:
            return P.Sphere(radius=m["radius"], center=T[:3, 3].tolist(), subdivisions=m["subdivisions"])
        return P.Sphere(radius=m["radius"], transform=T, subdivisions=m["subdivisions"])
    if kind == "Cylinder":
        return P.Cylinder(radius=m["radius"], height=m["height"], transform=T, sections=m["sections"])
    if kind == "Capsule":
        return P.Capsule(radius=m["radius"], height=m["height"], transform=T, sections=m["sections"])
    from shapely.geometry import Polygon

    return P.Extrusion(polygon=Polygon(*outline(m)), height=m["height"], transform=T)


class C15(World):
    ID = "C15"
    RUNS = {"quick": 30000, "thorough": 800000}
    WALL = {"quick": 110.0, "thorough": 1700.0}
    BLOCK = 25
    RULE = (
        "one evaluation = one primitive (Box / Sphere / Cylinder / Capsule / Extrusion with 0-2 holes; section and subdivision counts down to the minimum; rigid placement) and 1-6 steps of "
        "reads, parameter assignments, in-place parameter edits, placements (rigid, uniform scale about a point, translation, mirror), copies, to_mesh and rejected edits; distinct_nontrivial "
        "counts distinct (class, op kind, mesh-existed-before-the-edit?, outcome) tuples after which validity / analytic measures / fresh-twin equality were checked"
    )
    SIM_UNIT = "primitive operations executed"
    LEVEL_TEXT = (
        "Seeded search over sequences of parameter edits and placements on the real primitive classes with a parameter model: after every step the mesh must be watertight, consistently wound "
        "and of positive volume, every vertex must lie on the analytic surface given by the *current* parameters, volume / area / bounds / inertia must equal the analytic (flat-faced) or "
        "inscribed-tessellation values and the analytic overrides the smooth formulas, and the mesh must equal that of a freshly constructed primitive with the same parameters. "
        "Free creation functions not used by a primitive (cone, annulus, torus, revolve, sweeps, uv_sphere) are pure functions of their arguments and are not covered."
    )
    LEVEL_NOTE = "Trusted: the parameter model (rigid/uniform-scale algebra), closed-form volumes and areas, own signed-tetrahedron mass properties. Narrowed scope, see DESIGN C15."
    COMPONENTS = {
        "real": ["trimesh.primitives.Box/Sphere/Cylinder/Capsule/Extrusion", "PrimitiveAttributes", "creation.box/icosphere/cylinder/capsule/extrude_polygon/triangulate_polygon", "caching.Cache keyed on the parameter store"],
        "simulated": ["the history of reads and edits", "np.random / random (seeded)"],
        "stubbed": [],
    }
    ASSUMPTIONS = ["placements are rigid or uniform scale (what a primitive can represent); mirrored and non-uniform matrices are generated as rejected ops"]

    def swarm(self, rng):
        return {"kind": rng.choice(KINDS), "weights": swarm_weights(rng, OPS, keep_p=0.7, always=("set_param", "read")), "n_ops": rng.choice([1, 2, 3, 4, 6] if self.TIER != "thorough" else [2, 4, 6, 9, 14])}

    def generate(self, rng, cfg):
        kind = cfg["kind"]
        m = {"radius": round(rng.uniform(0.3, 2.5), 3), "height": round(rng.uniform(0.4, 4.0), 3), "extents": [round(rng.uniform(0.4, 3.0), 3) for _ in range(3)],
             "sections": rng.choice([3, 4, 5, 8, 32]), "subdivisions": rng.choice([0, 1, 2, 3]), "holes": rng.choice([0, 1, 2]), "pscale": rng.choice(PSCALES), "ctor": rng.choice(["std", "std", "alt"]),
             "transform": (mx.make(rng, rng.choice(["identity", "identity", "translation", "rigid", "rigid"]))).tolist()}
        if kind == "Extrusion" and rng.random() < 0.25:
            m["height"] = -m["height"]  # an extrusion may run against its axis
        if kind != "Extrusion" and rng.random() < 0.08:
            # the same shapes a few tenths of a millimetre across, modelled in metres: every valid size is a valid size
            k_ = rng.choice([1e-3, 1e-4])
            m["radius"], m["height"], m["extents"] = m["radius"] * k_, m["height"] * k_, [e * k_ for e in m["extents"]]
        ops = [{"op": "build", "model": m, "mutable": rng.random() < 0.9, "rs": rng.randrange(2**31)}]
        for _ in range(cfg["n_ops"]):
            k = pick(rng, cfg["weights"])
            op = {"op": k, "rs": rng.randrange(2**31), "which": rng.randrange(6), "f": round(rng.choice([rng.uniform(0.4, 0.8), rng.uniform(1.3, 2.5)]), 3), "i": rng.randrange(3),
                  "silent": rng.random() < 0.25}
            if k in ("set_param", "apply_translation", "apply_scale") and rng.random() < 0.2:
                # fine tuning: a few parts per million (far above rounding, far below what a loose comparison tells apart)
                op["f"] = 1.0 + 4e-6
                if k == "apply_translation":
                    op["fine"] = True
            if k in ("apply_transform", "set_transform", "bad_transform", "mirror_transform"):
                cls = {"apply_transform": rng.choice(["rigid", "translation", "uniform_scale", "similarity"]), "set_transform": "rigid", "bad_transform": rng.choice(["aniso", "shear"]), "mirror_transform": rng.choice(["mirror", "rot_mirror"])}[k]
                op["cls"], op["matrix"] = cls, mx.make(rng, cls).tolist()
            if k in ("apply_translation", "inplace_transform", "set_center"):
                op["vec"] = mx.rand_translation(rng).tolist()
            if k == "set_param_pair":
                op["mode"] = rng.choice(["swap", "equal", "equal", "random"])
                op["v"] = round(rng.uniform(0.5, 3.0), 3)
            if k == "read":
                op["names"] = rng.sample(READS, rng.randint(1, 4))
            if k == "copy":
                op["route"] = rng.choice(["copy", "copy.copy", "copy.deepcopy", "copy_novisual", "copy_resolution"])
                op["n"] = rng.choice([3, 4, 6, 16])
            ops.append(op)
        return {"config": cfg, "ops": ops}

    # ------------------------------------------------------------------ execution
    def execute(self, program, ctx):
        cfg = program["config"]
        kind = cfg["kind"]
        self._src = {}
        p = m = None
        bystander = by_vertices = None
        mutable = True
        for step, op in enumerate(program["ops"]):
            ctx.step = step
            seed_lib_rng(op)
            k = op["op"]
            try:
                if k == "build":
                    m = pycopy.deepcopy(op["model"])
                    mutable = op.get("mutable", True)
                    src = {}
                    p = construct(kind, m, src)
                    self._src = src
                    if not mutable:
                        p = type(p)(**{**{kk: vv for kk, vv in (("radius", m["radius"]), ("height", m["height"]), ("extents", m["extents"]), ("sections", m["sections"]), ("subdivisions", m["subdivisions"])) if kk in self._ctor_keys(kind)},
                                       **({"polygon": p.primitive.polygon} if kind == "Extrusion" else {}), "transform": np.array(m["transform"]), "mutable": False})
                    self._check(kind, p, m, ctx, "build", False)
                    # a second primitive of the same class with the default placement (and, when the model's placement is the identity,
                    # the subject is rebuilt with the default too, so both come from the same defaults)
                    m0 = dict(pycopy.deepcopy(m), transform=np.eye(4).tolist())
                    bystander = self._default_placed(kind, m0)
                    if mutable and np.allclose(np.array(m["transform"]), np.eye(4)):
                        p = self._default_placed(kind, m)
                    by_vertices = np.array(bystander.vertices)
                    continue
                if p is None:
                    raise Inapplicable()
                had_mesh = "vertices" in p._cache.cache
                out = self._do(kind, p, m, op, mutable, ctx)
                if isinstance(out, tuple):
                    p, out = out
                    # copy() rebuilds the primitive with the default (mutable) store: mutability is not a parameter
                    mutable = True if out != "copy.deepcopy" else mutable
                ctx.count("op:" + k)
                ctx.steps_sim += 1
                ctx.reach(kind, k, op.get("cls", ""), had_mesh, out)
                ctx.event(step, k, out)
                if op.get("silent") and step < len(program["ops"]) - 1 and k not in ("copy",):
                    # nothing is read between this op and the next one (an edit followed directly by another edit or a placement)
                    ctx.count("probe:op-without-a-read-after")
                else:
                    self._check(kind, p, m, ctx, k, had_mesh)
                if bystander is not None:
                    # another primitive of the same class, built with the defaults: whatever is done to this one, it stays what it was
                    if same(np.asarray(bystander.primitive.transform), np.eye(4), 0, "bystander") or same(np.asarray(bystander.vertices), by_vertices, 0, "bystander"):
                        ctx.fail("model", f"{kind}-bystander", f"{kind} after {k}: another {kind} built with default placement changed")
            except Inapplicable:
                ctx.count("skip:inapplicable")

    @staticmethod
    def _default_placed(kind, m):
        """The primitive built WITHOUT a transform argument (the class's own default placement)."""
        import trimesh

        P = trimesh.primitives
        if kind == "Box":
            return P.Box(extents=list(m["extents"]))
        if kind == "Sphere":
            return P.Sphere(radius=m["radius"], subdivisions=m["subdivisions"])
        if kind == "Cylinder":
            return P.Cylinder(radius=m["radius"], height=m["height"], sections=m["sections"])
        if kind == "Capsule":
            return P.Capsule(radius=m["radius"], height=m["height"], sections=m["sections"])
        from shapely.geometry import Polygon

        return P.Extrusion(polygon=Polygon(*outline(m)), height=m["height"])

    @staticmethod
    def _ctor_keys(kind):
        return {"Box": {"extents"}, "Sphere": {"radius", "subdivisions"}, "Cylinder": {"radius", "height", "sections"}, "Capsule": {"radius", "height", "sections"}, "Extrusion": {"height"}}[kind]

    def _params(self, kind):
        return {"Box": ["extents"], "Sphere": ["radius"], "Cylinder": ["radius", "height"], "Capsule": ["radius", "height"], "Extrusion": ["height"]}[kind]

    def _expect_raise(self, fn, ctx, what):
        try:
            fn()
        except (KeyboardInterrupt, SystemExit, MemoryError):
            raise
        except Exception as e:
            ctx.count("exc:" + type(e).__name__)
            return type(e).__name__
        return "accepted"

    def _do(self, kind, p, m, op, mutable, ctx):
        k = op["op"]
        prim = p.primitive
        f = op["f"]
        if k == "read":
            for n in op["names"]:
                getattr(p, n)
            return "ok"
        if k == "cache_clear":
            p._cache.clear()
            return "ok"
        if k == "to_mesh":
            tm = p.to_mesh()
            if same(np.asarray(tm.vertices), np.asarray(p.vertices), 1e-12, "to_mesh.vertices") or same(np.asarray(tm.faces), np.asarray(p.faces), 0, "to_mesh.faces"):
                ctx.fail("model", "to_mesh", "to_mesh() differs from the primitive's mesh")
            tm.vertices[0] += 1.0  # must not reach the primitive
            return "ok"
        if k == "copy":
            if not mutable:
                # whether a copy of a frozen primitive is frozen is not something the statement speaks about
                raise Inapplicable()
            route = op["route"]
            if route == "copy_novisual":
                q = p.copy(include_visual=False)
            elif route == "copy_resolution":
                # documented: constructor arguments outside the export schema (sections / subdivisions) may be given to copy()
                key = {"Sphere": "subdivisions", "Cylinder": "sections", "Capsule": "sections"}.get(kind)
                if key is None:
                    raise Inapplicable()
                n = op.get("n", 4) if key == "sections" else op.get("n", 4) % 4
                q = p.copy(**{key: n})
                m[key] = n
            else:
                q = p.copy() if route == "copy" else (pycopy.copy(p) if route == "copy.copy" else pycopy.deepcopy(p))
            return (q, route)
        if k == "bad_attribute":
            ctx.count("fault:bad_attribute")
            out = self._expect_raise(lambda: setattr(prim, "no_such_parameter", 3.0), ctx, k)
            if out == "accepted":
                ctx.fail("rejected", "unknown-attribute", "assignment of an unknown primitive attribute was accepted")
            return out
        if k in ("bad_transform", "mirror_transform"):
            ctx.count("fault:" + k)
            M = np.array(op["matrix"])
            out = self._expect_raise(lambda: p.apply_transform(M), ctx, k)
            if out == "accepted":
                s_ = mx.similarity_factor(M)
                if k == "mirror_transform" and s_ is not None and (abs(s_ - 1.0) < 1e-9 or kind == "Sphere"):
                    # a mirrored placement is a legitimate placement (quantifier: "rigid placements including mirrored ones"):
                    # the model follows it and every validity / surface / twin check below applies to the result
                    T = np.array(m["transform"])
                    if kind == "Sphere":
                        m["radius"] *= s_
                        Tn = np.array(p.primitive.transform)
                        c = mx.apply(M, T[:3, 3][None])[0]
                        if same(Tn[:3, 3], c, 1e-9, "center"):
                            ctx.fail("model", "sphere-center", "centre after an accepted mirror is not M.c")
                        m["transform"] = Tn.tolist()
                    else:
                        m["transform"] = (M @ T).tolist()
                    return "mirrored-placement"
                ctx.fail("rejected", k, f"{kind} accepted a {op['cls']} matrix it cannot represent")
            return out
        # ---- edits that need a mutable primitive
        names = self._params(kind)
        if not mutable and k in ("set_param", "set_transform", "set_center"):
            ctx.count("fault:immutable-set")
            name = names[op["which"] % len(names)]
            out = self._expect_raise(lambda: setattr(prim, name, getattr(prim, name) * f), ctx, k)
            if out == "accepted":
                ctx.fail("rejected", "immutable", "an immutable primitive accepted a parameter assignment")
            return out
        if not mutable and k in ("inplace_param", "inplace_transform", "apply_transform", "apply_translation", "apply_scale"):
            # in-place edits of a frozen store raise inside numpy / the data store; outcome recorded, invariants checked below
            if k == "apply_scale" and kind == "Extrusion":
                raise Inapplicable()
            ctx.count("fault:immutable-" + k)
            fn = {"inplace_param": lambda: self._inplace_param(kind, prim, m, op, dry=True), "inplace_transform": lambda: prim.transform.__setitem__((slice(0, 3), 3), np.array(op["vec"])),
                  "apply_transform": lambda: p.apply_transform(np.array(op.get("matrix", np.eye(4)))), "apply_translation": lambda: p.apply_translation(op["vec"]), "apply_scale": lambda: p.apply_scale(f)}[k]
            out = self._expect_raise(fn, ctx, k)
            if out == "accepted":
                ctx.fail("rejected", "immutable", f"an immutable primitive accepted {k}")
            return out
        if k == "set_param":
            name = names[op["which"] % len(names)]
            if name == "extents":
                new = [m["extents"][0] * f, m["extents"][1], m["extents"][2] / f]
                handed = np.array(new, dtype=float)
                prim.extents = handed
                self._src["extents"] = handed  # still the caller's array
                m["extents"] = new
            else:
                new = m[name] * f
                setattr(prim, name, new)
                m[name] = new
            return name
        if k == "set_param_pair":
            # two assignments with no read in between (swapped or equal values leave a commutative / self-cancelling store hash unchanged)
            if kind not in ("Cylinder", "Capsule"):
                raise Inapplicable()
            if not mutable:
                raise Inapplicable()
            r0, h0 = m["radius"], m["height"]
            r1, h1 = {"swap": (h0, r0), "equal": (op["v"], op["v"]), "random": (r0 * f, h0 / f)}[op["mode"]]
            prim.radius = r1
            prim.height = h1
            m["radius"], m["height"] = r1, h1
            return op["mode"]
        if k == "param_there_and_back":
            # a parameter doubled, ONE read in that state, and the parameter restored bit for bit: what was computed for the other
            # state must not be waiting under the identifier of this one
            if not mutable:
                raise Inapplicable()
            name = names[op["which"] % len(names)]
            old = np.array(getattr(prim, name), dtype=float).copy()
            setattr(prim, name, old * 2.0)
            try:
                getattr(p, ["volume", "area", "bounds", "vertices", "face_normals"][op["i"] % 5])
            except (KeyboardInterrupt, SystemExit, MemoryError):
                raise
            except BaseException:
                pass
            setattr(prim, name, old if old.ndim else float(old))
            return name
        if k == "caller_edits_its_arrays":
            # the arrays that were handed to the constructor (or to an assignment) are the caller's: it goes on using them
            arrays = list(self._src.values())
            if not arrays:
                raise Inapplicable()
            for a in arrays:
                try:
                    a += 0.375
                except ValueError:
                    pass
            return "ok"
        if k == "height_minus_one_two":
            # two values a careless store hash cannot tell apart: CPython's hash(-1.0) == hash(-2.0)
            if kind != "Extrusion" or not mutable:
                raise Inapplicable()
            prim.height = -1.0
            m["height"] = -1.0
            self._check(kind, p, m, ctx, k + ":-1", True)
            prim.height = -2.0
            m["height"] = -2.0
            return "ok"
        if k == "slide":
            # an extrusion moved along its own axis
            if kind != "Extrusion" or not mutable:
                raise Inapplicable()
            d = (f - 1.0) * 2.0
            p.slide(d)
            m["transform"] = (np.array(m["transform"]) @ mx.hom(None, [0.0, 0.0, d])).tolist()
            return "ok"
        if k == "buffer":
            # a NEW cylinder that covers this one by a distance (the history goes on with the new one; its resolution is its own)
            if kind != "Cylinder":
                raise Inapplicable()
            d = abs(f - 1.0)
            q = p.buffer(d)
            m["radius"], m["height"] = m["radius"] + d, m["height"] + 2 * d
            m["sections"] = int(q.primitive.sections)
            return (q, "buffer")
        if k == "negate_height":
            if kind != "Extrusion" or not mutable:
                raise Inapplicable()
            prim.height = -m["height"]
            m["height"] = -m["height"]
            return "ok"
        if k == "inplace_param":
            return self._inplace_param(kind, prim, m, op)
        if k == "set_transform":
            M = np.array(op["matrix"])
            handed = M.copy()
            prim.transform = handed
            self._src["transform"] = handed  # still the caller's array
            m["transform"] = M.tolist()
            return "ok"
        if k == "inplace_transform":
            prim.transform[:3, 3] = np.array(op["vec"])
            T = np.array(m["transform"])
            T[:3, 3] = op["vec"]
            m["transform"] = T.tolist()
            return "ok"
        if k == "set_center":
            if kind != "Sphere":
                raise Inapplicable()
            prim.center = op["vec"]
            T = np.eye(4)
            T[:3, 3] = op["vec"]
            m["transform"] = T.tolist()
            return "ok"
        if k in ("apply_transform", "apply_translation", "apply_scale"):
            if k == "apply_transform":
                M = np.array(op["matrix"])
            elif k == "apply_translation":
                # a nudge: parts per million of where the primitive stands
                vec = op["vec"] if not op.get("fine") else (np.array(m["transform"])[:3, 3] * 4e-6 + np.array([3e-6, 0, 0])).tolist()
                M = mx.hom(None, vec)
            else:
                M = mx.hom(np.eye(3) * f, None)
            s = mx.similarity_factor(M)
            if kind == "Extrusion" and abs(s - 1.0) > 1e-9:
                # documented: an extrusion is not re-parameterised under scale; it must refuse
                ctx.count("fault:extrusion-scale")
                out = self._expect_raise(lambda: (p.apply_transform(M) if k != "apply_scale" else p.apply_scale(f)), ctx, k)
                if out == "accepted":
                    ctx.fail("rejected", "extrusion-scale", "an Extrusion accepted a scaling transform")
                return out
            if k == "apply_transform":
                p.apply_transform(M)
            elif k == "apply_translation":
                p.apply_translation(vec)
            else:
                p.apply_scale(f)
            T = np.array(m["transform"])
            A = M[:3, :3]
            Tn = np.eye(4)
            Tn[:3, :3] = (A / s) @ T[:3, :3]
            Tn[:3, 3] = A @ T[:3, 3] + M[:3, 3]
            m["transform"] = Tn.tolist()
            for name in self._params(kind):
                m[name] = [x * s for x in m[name]] if name == "extents" else m[name] * s
            return "ok"
        raise Inapplicable()

    def _inplace_param(self, kind, prim, m, op, dry=False):
        if kind != "Box":
            raise Inapplicable()
        i, f = op["i"], op["f"]
        prim.extents[i] *= f
        if not dry:
            m["extents"][i] *= f
        return "extents"

    # ------------------------------------------------------------------ oracle
    def _check(self, kind, p, m, ctx, after, had_mesh):
        label = f"{kind} after {after}" + (" (mesh existed before)" if had_mesh else "")

        def fail(obs, detail):
            ctx.fail("model", f"{kind}-{obs}", f"{label}: {detail}")

        T = np.array(m["transform"], dtype=float)
        ctx.count("check:step")
        # parameters reported by the primitive follow the model
        if same(np.asarray(p.primitive.transform), T, 1e-9, "transform"):
            fail("transform", f"primitive.transform {np.round(np.asarray(p.primitive.transform), 6).tolist()} != model {np.round(T, 6).tolist()}")
        for name in self._params(kind):
            if same(np.asarray(getattr(p.primitive, name), dtype=float), np.asarray(m[name], dtype=float), 1e-9, name):
                fail(name, f"{getattr(p.primitive, name)} != model {m[name]}")
        V, F = np.asarray(p.vertices, dtype=float), np.asarray(p.faces)
        if not _index_manifold(F):
            fail("watertight", "mesh is not watertight and consistently wound")
        if not (p.is_watertight and p.is_winding_consistent):
            fail("watertight", "is_watertight / is_winding_consistent report False")
        mesh_vol = tri_volume(V[F])
        if mesh_vol <= 0:
            fail("volume", f"mesh volume {mesh_vol} is not positive")
        # the mesh equals that of a freshly constructed primitive with the model's parameters
        fresh = construct(kind, m)
        if same(V, np.asarray(fresh.vertices), 1e-9, "vertices") or same(F, np.asarray(fresh.faces), 0, "faces"):
            fail("fresh-twin", "mesh differs from a freshly constructed primitive with the current parameters (stale mesh)")
        if same(np.asarray(p.face_normals), np.asarray(fresh.face_normals), 1e-9, "face_normals"):
            fail("fresh-twin", "face normals differ from a freshly constructed primitive")
        # analytic surface membership in the local frame
        L = mx.apply(np.linalg.inv(T), V)
        r, h = m["radius"], m["height"]
        tol = 1e-9 * (1 + float(np.abs(V).max()))
        if kind == "Box":
            e = np.array(m["extents"]) / 2
            if np.abs(np.abs(L) - e).max() > tol:
                fail("surface", "box vertices are not the corners +-extents/2")
            vol, area = float(np.prod(m["extents"])), 2 * float(e[0] * e[1] + e[1] * e[2] + e[0] * e[2]) * 4
            if same(mesh_vol, vol, 1e-9, "v") or same(float(p.volume), vol, 1e-9, "v") or same(float(p.area), area, 1e-9, "a"):
                fail("analytic", f"box volume/area {p.volume}/{p.area} != {vol}/{area}")
            I, com, _ = inertia_com(V, F)
            Iw = np.diag([vol / 12 * ((2 * e[1]) ** 2 + (2 * e[2]) ** 2), vol / 12 * ((2 * e[0]) ** 2 + (2 * e[2]) ** 2), vol / 12 * ((2 * e[0]) ** 2 + (2 * e[1]) ** 2)])
            if same(I, T[:3, :3] @ Iw @ T[:3, :3].T, 1e-8, "inertia"):
                fail("inertia", "mesh inertia differs from the analytic box tensor")
        elif kind == "Sphere":
            if np.abs(np.linalg.norm(L, axis=1) - r).max() > tol:
                fail("surface", "sphere vertices are not at distance radius from the centre")
            if same(float(p.volume), 4 / 3 * math.pi * r**3, 1e-9, "v") or same(float(p.area), 4 * math.pi * r**2, 1e-9, "a"):
                fail("analytic", f"sphere volume/area overrides {p.volume}/{p.area}")
            if not (0 < mesh_vol <= 4 / 3 * math.pi * r**3 * (1 + 1e-9)):
                fail("inscribed", "tessellation volume exceeds the smooth sphere")
            if same(np.asarray(p.bounds), np.array([T[:3, 3] - r, T[:3, 3] + r]), 1e-9, "bounds"):
                fail("bounds", "sphere bounds are not centre +- radius")
            if same(np.asarray(p.moment_inertia), np.eye(3) * (2 / 5) * (4 / 3 * math.pi * r**3) * r * r, 1e-9, "inertia"):
                fail("inertia", "sphere inertia override")
        elif kind == "Cylinder":
            rad = np.linalg.norm(L[:, :2], axis=1)
            on_axis = rad < tol
            if np.abs(np.abs(L[:, 2]) - h / 2).max() > tol or np.abs(rad[~on_axis] - r).max() > tol:
                fail("surface", "cylinder vertices are not on the wall / cap planes")
            n = m["sections"]
            prism = n / 2 * r * r * math.sin(2 * math.pi / n) * h
            if same(mesh_vol, prism, 1e-9, "v"):
                fail("inscribed", f"mesh volume {mesh_vol} != n-gon prism {prism}")
            if same(float(p.volume), math.pi * r * r * h, 1e-9, "v"):
                fail("analytic", f"cylinder volume override {p.volume}")
            # the wall has exactly `sections` facets
            az = _azimuths(L[~on_axis])
            if az != n:
                fail("resolution", f"cylinder wall has {az} facets, sections = {n}")
            side = 2 * r * math.sin(math.pi / n)
            if same(tri_area(V[F]), n * side * h + 2 * (n / 2 * r * r * math.sin(2 * math.pi / n)), 1e-9, "a"):
                fail("inscribed", "mesh area != n-gon prism area")
        elif kind == "Capsule":
            rad = np.linalg.norm(L[:, :2], axis=1)
            z = L[:, 2]
            # wall: |z - zc| <= h/2 with radial distance r; caps: distance r from the end-cap centres
            zc = (z.max() + z.min()) / 2
            dz = np.abs(z - zc)
            wall = dz <= h / 2 + tol
            d_cap = np.sqrt(rad**2 + (dz - h / 2) ** 2)
            ok = np.where(wall, np.abs(rad - r) < 1e-7 * (1 + r), np.abs(d_cap - r) < 1e-7 * (1 + r))
            if not ok.all():
                fail("surface", "capsule vertices are not on the wall / hemispheres")
            # `sections` is "the number of facets in circle" (creation.capsule rounds odd counts up to the next even one)
            n = m["sections"]
            az = _azimuths(L[rad > 1e-7 * (1 + r)])
            if az not in (n, n + n % 2):
                if ctx.is_known("C15-capsule-ignores-sections") and az == 64:
                    ctx.finding("C15-capsule-ignores-sections", f"sections={n}")
                else:
                    fail("resolution", f"capsule has {az} facets around its axis, sections = {n}")
            smooth = math.pi * r * r * h + 4 / 3 * math.pi * r**3
            if not (0.5 * smooth < mesh_vol <= smooth * (1 + 1e-9)):
                fail("inscribed", f"capsule mesh volume {mesh_vol} vs smooth {smooth}")
        else:
            shell_, holes_ = outline(m)
            A = poly_area(shell_) - sum(poly_area(hh) for hh in holes_)
            per = poly_perimeter(shell_) + sum(poly_perimeter(hh) for hh in holes_)
            # the outline the primitive reports is the outline it was given (through every copy and export route)
            got_xy = np.asarray(p.primitive.polygon.exterior.coords)[:-1]
            if got_xy.shape != (len(shell_), 2) or np.abs(got_xy - np.asarray(shell_)).max() > 1e-12 * (1 + abs(m.get("pscale", 1.0))):
                fail("polygon", "the polygon of the extrusion is not the polygon it was given")
            if np.minimum(np.abs(L[:, 2]), np.abs(L[:, 2] - h)).max() > tol:
                fail("surface", "extrusion vertices are not on the two cap planes")
            if same(mesh_vol, A * abs(h), 1e-9, "v") or same(float(p.volume), A * abs(h), 1e-9, "v"):
                fail("analytic", f"extrusion volume {mesh_vol}/{p.volume} != area*|height| {A * abs(h)}")
            if same(tri_area(V[F]), 2 * A + per * abs(h), 1e-9, "a") or same(float(p.area), 2 * A + per * abs(h), 1e-9, "a"):
                fail("analytic", "extrusion area != 2*A + perimeter*|height|")
            # the reported direction is the unit vector from the base plane into the solid
            d = np.asarray(p.direction, dtype=float)
            want_d = T[:3, :3] @ np.array([0.0, 0.0, 1.0 if h >= 0 else -1.0])
            if same(d, want_d, 1e-9, "direction"):
                fail("direction", f"direction {d.tolist()} != axis of the solid {want_d.tolist()}")
            along = (V - T[:3, 3]) @ d
            if along.min() < -tol or along.max() > abs(h) + tol:
                fail("direction", "vertices do not lie between the base plane and |height| along the reported direction")
        # what else the primitive says about itself follows the parameters too
        if kind in ("Cylinder", "Capsule"):
            if same(np.asarray(p.direction, dtype=float), T[:3, :3] @ np.array([0.0, 0.0, 1.0]), 1e-9, "direction"):
                fail("direction", f"direction {np.asarray(p.direction).tolist()} is not the axis of the current placement")
        if kind == "Cylinder":
            if same(np.asarray(p.segment, dtype=float), mx.apply(T, np.array([[0.0, 0.0, -h / 2], [0.0, 0.0, h / 2]])), 1e-9, "segment"):
                fail("segment", "segment is not the axis of the current cylinder")
        if kind == "Sphere":
            if same(np.asarray(p.center, dtype=float), T[:3, 3], 1e-9, "center") or same(np.asarray(p.primitive.center, dtype=float), T[:3, 3], 1e-9, "center"):
                fail("center", "center is not the translation of the current placement")
        if kind == "Box":
            if same(np.asarray(p.transform, dtype=float), T, 1e-9, "transform"):
                fail("transform", "Box.transform is not the current placement")
        if kind != "Sphere" and same(np.asarray(p.bounds), np.array([V.min(axis=0), V.max(axis=0)]), 1e-9, "bounds"):
            fail("bounds", "bounds differ from the mesh extent")

    def finding_programs(self, known):
        m = {"radius": 1.0, "height": 2.0, "extents": [1.0, 1.0, 1.0], "sections": 8, "subdivisions": 1, "holes": 0, "pscale": 1.0, "transform": np.eye(4).tolist()}
        return [("C15-capsule-ignores-sections", {"config": {"kind": "Capsule", "n_ops": 0}, "seed": 1, "ops": [{"op": "build", "model": m, "mutable": True, "rs": 1}]})]

    def simplify_op(self, op):
        out = []
        if "matrix" in op and op.get("cls") in ("rigid", "similarity", "uniform_scale", "translation"):
            for M in mx.simpler(op["cls"]):
                out.append(dict(op, matrix=M))
        if op["op"] == "build":
            m = op["model"]
            if m["transform"] != np.eye(4).tolist():
                out.append(dict(op, model=dict(m, transform=np.eye(4).tolist())))
            if m["holes"]:
                out.append(dict(op, model=dict(m, holes=0)))
        return out


def _mut_scale_keeps_translation():
    import trimesh
    from trimesh import transformations as tf, util
    P = trimesh.primitives.Primitive
    orig = P.apply_transform

    def apply_transform(self, matrix):
        matrix = np.asanyarray(matrix, dtype=np.float64)
        scale = np.linalg.det(matrix[:3, :3]) ** (1.0 / 3.0)
        if abs(scale - 1.0) > 1e-8 and not isinstance(self, trimesh.primitives.Extrusion):
            prim = self.primitive
            current = prim.transform.copy()
            updated = util.multi_dot([matrix, tf.scale_matrix(1.0 / scale), current])  # translation not rescaled
            if not tf.is_rigid(updated):
                raise ValueError("Couldn't produce rigid transform!")
            for k in ("height", "radius", "extents"):
                if hasattr(prim, k):
                    setattr(prim, k, getattr(prim, k) * scale)
            prim.transform = updated
            return self
        return orig(self, matrix)

    P.apply_transform = apply_transform
    return lambda: setattr(P, "apply_transform", orig)


def _mut_cylinder_ignores_sections():
    import trimesh
    from trimesh import creation
    C = trimesh.primitives.Cylinder
    orig = C._create_mesh

    def _create_mesh(self):
        mesh = creation.cylinder(radius=self.primitive.radius, height=self.primitive.height, sections=max(int(self.primitive.sections), 6), transform=self.primitive.transform)
        self._cache["vertices"] = mesh.vertices
        self._cache["faces"] = mesh.faces
        self._cache["face_normals"] = mesh.face_normals

    C._create_mesh = _create_mesh
    return lambda: setattr(C, "_create_mesh", orig)


def _mut_box_mesh_memo_survives_inplace_edit():
    import trimesh
    B = trimesh.primitives.Box
    orig = B._create_mesh
    memo = {}

    def _create_mesh(self):
        key = (id(self), round(float(np.asarray(self.primitive.extents)[1]), 9), np.asarray(self.primitive.transform).tobytes())
        if key in memo:
            v, f, n = memo[key]
            self._cache["vertices"], self._cache["faces"], self._cache["face_normals"] = v, f, n
            return
        orig(self)
        memo[key] = (self._cache["vertices"], self._cache["faces"], self._cache["face_normals"])

    B._create_mesh = _create_mesh
    return lambda: setattr(B, "_create_mesh", orig)


C15.MUTANTS = {"scale-forgets-to-scale-translation": _mut_scale_keeps_translation, "cylinder-uses-at-least-6-sections": _mut_cylinder_ignores_sections, "box-mesh-memo-keyed-on-one-extent": _mut_box_mesh_memo_survives_inplace_edit}

WORLD = C15()
