"""
C10 - scene-level quantities equal explicit placement of every instance.

History machine on a real Scene: build (add geometry, instance it at several nodes, nested parents),
then steps of checked reads, graph edits, geometry edits through shared handles, and derived-scene
operations (copy, scaled uniform / per axis, convert_units, rezero, apply_transform, subscene, +).
Reference model: the C09 dictionary forest + raw arrays per geometry; explicit placement =
for every node with geometry, world matrix applied to the arrays.
"""
import os

import numpy as np

from ..core.engine import HarnessError, Inapplicable, seed_lib_rng
from ..core.world import World, pick, swarm_weights
from ..worlds import matrices as mx
from ..worlds import meshes
from .c01 import same
from .c09 import Forest

NODES = ["n0", "n1", "n2", "n3", "n4", "n5", "n6"]
MESH_BASES = ["tetra", "box", "octa", "open_box", "prism5"]
READS = ["bounds", "extents", "centroid", "scale", "area", "volume", "triangles", "convex_hull", "dump", "to_mesh", "to_geometry", "bounds_corners", "is_valid", "geometry_nodes"]
EDIT_KINDS = ["edge", "reparent", "geom_edit", "delete_geometry", "replace_geometry", "instance", "add", "cache_clear", "remove_node", "add_duplicate", "geom_edit_all", "swap_geometry", "set_base"]
DERIVED = ["copy", "scaled", "scaled3", "convert_units", "rezero", "apply_transform", "subscene", "add_scene", "add_self"]
EDGE_CLASSES = ["identity", "translation", "rigid", "similarity", "uniform_scale"]
TO_M = {"mm": 0.001, "in": 0.0254, "m": 1.0, "feet": 0.3048}


# ----------------------------------------------------------------------------- model helpers
def tri_area(T):
    return float(np.linalg.norm(np.cross(T[:, 1] - T[:, 0], T[:, 2] - T[:, 0]), axis=1).sum() / 2.0) if len(T) else 0.0


def tri_volume(T):
    """Signed volume of closed surfaces, summed about the centroid of the triangles: the sum about the origin cancels
    catastrophically for a small part placed far away (0.5 mm octahedron 915 mm out: 3e-9 absolute error)."""
    if not len(T):
        return 0.0
    T = T - T.reshape(-1, 3).mean(axis=0)
    return float(np.einsum("ij,ij->i", T[:, 0], np.cross(T[:, 1], T[:, 2])).sum() / 6.0)


def is_closed(V, F):
    """Every undirected edge (by vertex position) is used by exactly two triangles."""
    if F is None or len(F) == 0:
        return False
    _, canon = np.unique(np.round(np.asarray(V, dtype=float), 9), axis=0, return_inverse=True)
    Fc = np.asarray(canon).reshape(-1)[np.asarray(F)]
    E = np.sort(np.vstack([Fc[:, [0, 1]], Fc[:, [1, 2]], Fc[:, [2, 0]]]), axis=1)
    _, counts = np.unique(E, axis=0, return_counts=True)
    return bool((counts == 2).all())


def make_geometry(recipe):
    """Real geometry object + model record from a JSON recipe."""
    import trimesh

    kind = recipe["kind"]
    if kind == "mesh":
        V, F = meshes.build(recipe["mesh"])
        g = trimesh.Trimesh(vertices=V.copy(), faces=F.copy(), process=False)
        rec = {"kind": "mesh", "V": V.copy(), "F": F.copy()}
    elif kind == "points":
        r = np.random.RandomState(recipe["salt"] % (2**32))
        V = np.round(r.uniform(-1, 1, (recipe.get("n", 5), 3)), 4)
        g = trimesh.PointCloud(vertices=V.copy())
        rec = {"kind": "points", "V": V.copy(), "F": None}
    elif kind == "path2d":
        # a planar drawing placed in space by its node (what a DXF loaded into a scene is)
        from trimesh.path.entities import Line

        r = np.random.RandomState(recipe["salt"] % (2**32))
        V2 = np.array([[0, 0], [1.5, 0], [1.5, 1], [0, 1]], dtype=float) + r.uniform(-0.1, 0.1, (4, 2))
        g = trimesh.path.Path2D(entities=[Line([0, 1, 2, 3, 0])], vertices=V2.copy(), process=False)
        rec = {"kind": "path", "V": np.column_stack([V2, np.zeros(4)]), "F": None, "dim": 2}
    else:
        from trimesh.path.entities import Line

        r = np.random.RandomState(recipe["salt"] % (2**32))
        V = np.array([[0, 0, 0], [1, 0, 0], [1, 1, 0.3], [0, 1, 0]], dtype=float) + r.uniform(-0.1, 0.1, (4, 3))
        g = trimesh.path.Path3D(entities=[Line([0, 1, 2, 3, 0])], vertices=V.copy(), process=False)
        rec = {"kind": "path", "V": V.copy(), "F": None}
    if recipe.get("units"):
        g.units = recipe["units"]
    rec["units"] = recipe.get("units")
    return g, rec


class Model:
    def __init__(self, base="world"):
        self.forest = Forest(base)
        self.geoms = {}  # name -> record

    def instances(self):
        """[(node, geometry name, world matrix)] for nodes whose geometry exists, connected to the base."""
        out = []
        f = self.forest
        for n in f.nodes:
            g = f.geom.get(n)
            if g is None or g not in self.geoms:
                continue
            if not f.connected(n, f.base):
                out.append((n, g, None))
                continue
            out.append((n, g, f.T(f.base, n)))
        return out

    def placements(self):
        """{node: (kind, world vertices, faces)}"""
        out = {}
        for n, g, W in self.instances():
            if W is None:
                raise Inapplicable("disconnected geometry node")
            rec = self.geoms[g]
            # a world matrix whose linear part is within 1e-5 of a rotation without being one (a chain of scales whose product is
            # 1.0000004): SceneGraph.get repairs such products to exactly rigid (repair_rigid = 1e-5) - a documented tolerance
            L = np.asarray(W, dtype=float)[:3, :3]
            dev = float(np.abs(L @ L.T - np.eye(3)).max())
            out[n] = (rec["kind"], mx.apply(W, rec["V"]), rec["F"], g, 0.0 < dev < 3e-5)
        return out


def placed_triangles(pl):
    T = [p[1][p[2]] for p in pl.values() if p[0] == "mesh" and len(p[2])]
    return np.vstack(T) if T else np.zeros((0, 3, 3))


def canon_tris(T):
    """Sort triangles by rounded centroid so that multisets can be compared elementwise."""
    T = np.asarray(T, dtype=float).reshape(-1, 3, 3)
    if len(T) == 0:
        return T
    c = np.round(T.mean(axis=1), 6)
    order = np.lexsort((c[:, 2], c[:, 1], c[:, 0]))
    T = T[order]
    # rotate corners so the lexicographically smallest comes first (keeps winding)
    out = []
    for t in T:
        k = np.lexsort((np.round(t[:, 2], 6), np.round(t[:, 1], 6), np.round(t[:, 0], 6)))[0]
        out.append(np.roll(t, -k, axis=0))
    return np.array(out)


def _lib_dir():
    import trimesh

    return os.path.dirname(os.path.abspath(trimesh.__file__)) + os.sep


_LIB = []


def _in_library(e):
    """True when some frame of the traceback belongs to trimesh (the library raised, not the harness alone)."""
    if not _LIB:
        _LIB.append(_lib_dir())
    tb = e.__traceback__
    while tb is not None:
        if tb.tb_frame.f_code.co_filename.startswith(_LIB[0]):
            return True
        tb = tb.tb_next
    return False


class C10(World):
    ID = "C10"
    RUNS = {"quick": 34000, "thorough": 1500000}
    WALL = {"quick": 110.0, "thorough": 1700.0}
    BLOCK = 60
    RULE = (
        "one evaluation = one seeded scene history: 1-5 build ops (geometries instanced 0..n times, nested parents, rigid/similarity edges) then 1-6 "
        "steps of checked scene reads, graph/geometry edits and derived-scene operations; distinct_nontrivial counts distinct "
        "(op kind x class, scene shape = instances/geometry kinds/depth, observable or derived-op outcome) tuples checked against the placement model"
    )
    SIM_UNIT = "scene operations and checked reads executed"
    LEVEL_TEXT = (
        "Seeded search over scene histories on the real Scene/SceneGraph: every scene read (bounds, extents, centroid, area, volume, triangles, "
        "convex hull, dump/to_mesh/to_geometry) is compared with explicit placement computed from a dictionary forest and raw arrays; every derived "
        "scene (copy, scaled, per-axis scaled, convert_units, rezero, apply_transform, subscene, +) must have exactly the expected placements and must "
        "leave its source(s) unchanged (snapshot of arrays, graph and observables). Exploration, not proof."
    )
    LEVEL_NOTE = (
        "Trusted: numpy, scipy ConvexHull for the hull oracle, the C09 forest model. Edge transforms are proper (det>0) rigid/similarity matrices. After "
        "a verified derived operation the structural model is re-read from the result's edge list (the placements were checked first)."
    )
    COMPONENTS = {
        "real": ["trimesh.Scene", "SceneGraph", "Trimesh/PointCloud/Path3D geometries", "util.concatenate", "units", "convex"],
        "simulated": ["the history", "random / np.random / uuid4 (seeded: node renaming in scene concatenation)"],
        "stubbed": [],
    }
    ASSUMPTIONS = ["edge matrices are proper similarities (no mirrors): a mirrored instance's 'triangles' winding is not defined by the statement"]

    # ------------------------------------------------------------------ generation
    def swarm(self, rng):
        return {
            "reads": sorted(rng.sample(READS, rng.choice([3, 6, len(READS)]))),
            "w_edit": swarm_weights(rng, EDIT_KINDS, keep_p=0.6),
            "w_derived": swarm_weights(rng, DERIVED, keep_p=0.55),
            "n_build": rng.choice([1, 2, 3, 4, 5]),
            "n_steps": rng.choice([1, 2, 2, 3, 4, 6] if self.TIER != "thorough" else [2, 3, 4, 6, 8, 12]),
            "kinds": rng.choice([["mesh"], ["mesh"], ["mesh", "points"], ["mesh", "points", "path"], ["mesh", "path2d"], ["mesh", "points", "path", "path2d"]]),
            "units": rng.choice([None, "in", "mm"]),
            "p_derived": rng.choice([0.2, 0.5, 0.8]),
        }

    def _gen_geom(self, rng, cfg):
        kind = rng.choice(cfg["kinds"])
        r = {"kind": kind, "salt": rng.randrange(2**31), "units": cfg["units"]}
        if kind == "mesh":
            r["mesh"] = meshes.random_recipe(rng, bases=MESH_BASES, variants=["plain", "plain", "plain", "unreferenced", "dup_vertices", "no_faces"])
            r["mesh"]["size"] = rng.choice([1.0, 0.5, 2.0])
        return r

    def _gen_matrix(self, rng):
        cls = rng.choice(EDGE_CLASSES)
        return cls, mx.make(rng, cls).tolist()

    def generate(self, rng, cfg):
        ops = []
        for i in range(cfg["n_build"]):
            cls, M = self._gen_matrix(rng)
            if i > 0 and rng.random() < 0.2:
                ops.append({"op": "add_duplicate", "i": rng.randrange(8), "node": NODES[i], "parent": rng.randrange(8), "cls": cls, "matrix": M, "rs": rng.randrange(2**31)})
            elif i == 0 or rng.random() < 0.6:
                ops.append({"op": "add", "geom": self._gen_geom(rng, cfg), "gname": f"g{i}", "node": NODES[i], "parent": rng.randrange(8), "cls": cls, "matrix": M, "rs": rng.randrange(2**31)})
            else:
                ops.append({"op": "instance", "g": rng.randrange(8), "node": NODES[i], "parent": rng.randrange(8), "cls": cls, "matrix": M, "rs": rng.randrange(2**31)})
        for _ in range(cfg["n_steps"]):
            for _ in range(rng.choice([0, 1, 2, 4, 6])):
                ops.append({"op": "read", "obs": rng.choice(cfg["reads"]), "rs": rng.randrange(2**31)})
            if rng.random() < cfg["p_derived"]:
                kind = pick(rng, cfg["w_derived"])
            else:
                kind = pick(rng, cfg["w_edit"])
            op = {"op": kind, "rs": rng.randrange(2**31), "salt": rng.randrange(2**31), "i": rng.randrange(64), "j": rng.randrange(64)}
            if kind in ("edge", "reparent", "instance", "add", "apply_transform"):
                op["cls"], op["matrix"] = self._gen_matrix(rng)
            if kind == "add":
                op.update({"geom": self._gen_geom(rng, cfg), "gname": f"x{rng.randrange(3)}", "node": rng.choice(NODES), "parent": rng.randrange(8)})
            if kind == "instance":
                op.update({"g": rng.randrange(8), "node": rng.choice(NODES), "parent": rng.randrange(8)})
            if kind == "add_duplicate":
                op.update({"node": rng.choice(NODES), "parent": rng.randrange(8)})
                op["cls"], op["matrix"] = self._gen_matrix(rng)
            if kind in ("geom_edit", "geom_edit_all"):
                op["route"] = rng.choice(["iadd", "item", "apply_transform", "apply_translation", "assign"])
                op["cls"], op["matrix"] = "rigid", mx.make(rng, "rigid").tolist()
                op["d"] = round(rng.uniform(0.2, 0.7), 3)
            if kind == "replace_geometry":
                op["geom"] = self._gen_geom(rng, cfg)
            if kind == "scaled":
                op["scale"] = round(mx.rand_scale(rng), 4) * (-1.0 if rng.random() < 0.2 else 1.0)
                if rng.random() < 0.15:
                    # a few parts per million from 1: far above rounding, inside every loose "is it one?" comparison
                    op["scale"] = 1.0 + 4e-6
                op["form"] = rng.choice(["float", "float", "list3_equal"])
            if kind == "scaled3":
                s = [round(mx.rand_scale(rng), 3) for _ in range(3)]
                if abs(s[0] - s[1]) < 0.1:
                    s[1] = round(s[0] * 1.6, 3)
                if rng.random() < 0.15:
                    # three factors that agree to a few parts per million - and are three factors all the same
                    s = [s[0], s[0], s[0] * (1.0 + 5e-6)]
                op["scale"] = s
            if kind == "convert_units":
                op["to"] = rng.choice(["mm", "in", "feet"])
            if kind == "add_scene":
                op["rezero_other"] = rng.random() < 0.3
                op["other"] = [{"geom": self._gen_geom(rng, cfg), "gname": rng.choice(["g0", "g1", "y0", "g0_1", "g1_1"]), "node": rng.choice(["n0", "n1", "m0", "m1", "n0_1", "n1_1", "n0_2", "m0_1"]), "matrix": mx.make(rng, "rigid").tolist()} for _ in range(rng.randint(1, 3))]
            ops.append(op)
        for _ in range(2):
            ops.append({"op": "read", "obs": rng.choice(cfg["reads"]), "rs": rng.randrange(2**31)})
        return {"config": cfg, "ops": ops}

    # ------------------------------------------------------------------ implementation side: observed placements
    def observed_placements(self, scene):
        out = {}
        for node in scene.graph.nodes_geometry:
            T, gname = scene.graph[node]
            g = scene.geometry[gname]
            kind = type(g).__name__
            kind = "mesh" if kind == "Trimesh" else ("points" if kind == "PointCloud" else "path")
            V = np.asarray(g.vertices, dtype=float)
            if V.ndim == 2 and V.shape[1] == 2:
                V = np.column_stack([V, np.zeros(len(V))])
            out[node] = (kind, mx.apply(np.asarray(T), V), np.asarray(g.faces) if kind == "mesh" else None, gname)
        return out

    def compare_placements(self, got, want, ctx, oracle, what, by_name=True):
        if by_name:
            if sorted(got) != sorted(want):
                ctx.fail(oracle, what + "-nodes", f"instance nodes {sorted(got)} != expected {sorted(want)}")
            pairs = [(n, got[n], want[n]) for n in sorted(want)]
        else:
            if len(got) != len(want):
                ctx.fail(oracle, what + "-count", f"{len(got)} instances != expected {len(want)}")
            key = lambda p: (p[0], len(p[1]), tuple(np.round(p[1].mean(axis=0), 5)) if len(p[1]) else ())  # noqa: E731
            g2, w2 = sorted(got.values(), key=key), sorted(want.values(), key=key)
            pairs = [(f"#{i}", a, b) for i, (a, b) in enumerate(zip(g2, w2))]
        for n, a, b in pairs:
            if a[0] != b[0]:
                ctx.fail(oracle, what + "-kind", f"node {n}: {a[0]} != {b[0]}")
            ptol = 1e-9
            if len(b) > 4 and b[4]:
                ptol = 3e-5
                ctx.count("probe:world-matrix-within-repair-tolerance-of-rigid")
            if a[0] == "path" and np.shape(a[1]) == np.shape(b[1]) and len(a[1]):
                # a drawing may renumber its vertices (Path2D.to_3D does): the placed corner set is what counts
                ka, kb = np.lexsort(np.round(a[1], 7).T[::-1]), np.lexsort(np.round(b[1], 7).T[::-1])
                bad = same(a[1][ka], b[1][kb], ptol, f"{n}.vertices")
            else:
                bad = same(a[1], b[1], ptol, f"{n}.vertices")
            if not bad and a[0] == "mesh":
                bad = same(a[1][a[2]] if len(a[2]) else np.zeros((0, 3, 3)), b[1][b[2]] if len(b[2]) else np.zeros((0, 3, 3)), ptol, f"{n}.triangles")
            if bad:
                ctx.fail(oracle, what, f"{bad}")

    def rebuild_model(self, scene):
        """Re-read the structural model from a scene whose placements were just verified."""
        m = Model(scene.graph.base_frame)
        f = m.forest
        for a, b, attr in scene.graph.to_edgelist():
            f.update(b, a, np.array(attr.get("matrix", np.eye(4)), dtype=float), attr.get("geometry"))
        for n in scene.graph.nodes:
            f._add(n)
        # a root's geometry is not in the edge list: read the node -> geometry map through the public accessors
        f.geom = {}
        for gname, nodes in scene.graph.geometry_nodes.items():
            for n in nodes:
                f.geom[n] = gname
        for name, g in scene.geometry.items():
            kind = type(g).__name__
            kind = "mesh" if kind == "Trimesh" else ("points" if kind == "PointCloud" else "path")
            V = np.array(g.vertices, dtype=float)
            planar = V.ndim == 2 and V.shape[1] == 2
            if planar:
                V = np.column_stack([V, np.zeros(len(V))])
            m.geoms[name] = {"kind": kind, "V": V, "F": np.array(g.faces) if kind == "mesh" else None, "units": g.units}
            if planar:
                m.geoms[name]["dim"] = 2
        return m

    def snapshot(self, scene):
        """Everything observable about a scene, for 'the source is never modified'."""
        snap = {"base": scene.graph.base_frame, "edges": sorted((a, b, np.round(np.array(attr.get("matrix", np.eye(4))), 12).tolist(), attr.get("geometry")) for a, b, attr in scene.graph.to_edgelist())}
        snap["geometry"] = {k: (type(g).__name__, np.array(g.vertices).tobytes(), np.array(getattr(g, "faces", [])).tobytes(), g.units) for k, g in scene.geometry.items()}
        snap["names"] = list(scene.geometry.keys())
        vals = {}
        for name in ("bounds", "area", "volume"):
            try:
                v = getattr(scene, name)
                vals[name] = None if v is None else np.round(np.asarray(v, dtype=float), 10).tolist()
            except Exception as e:
                vals[name] = type(e).__name__
        snap["values"] = vals
        return snap

    # ------------------------------------------------------------------ execution
    def execute(self, program, ctx):
        import trimesh

        cfg = program["config"]
        scene = trimesh.Scene()
        model = Model("world")
        st = {"cfg": cfg, "last": "init"}
        self._mine = []
        for step, op in enumerate(program["ops"]):
            ctx.step = step
            seed_lib_rng(op)
            k = op["op"]
            try:
                if k == "read":
                    st["first_names"] = bool(int(op.get("rs", 0)) & 1)
                    self._read(scene, model, op["obs"], st, ctx)
                    ctx.count("op:read")
                else:
                    try:
                        scene, model = self._do(scene, model, op, st, ctx)
                    finally:
                        self._caller_reuses()
                    ctx.count("op:" + k)
                    st["last"] = k + (":" + str(op.get("cls")) if op.get("cls") else "")
                    ctx.event(step, k, len(model.geoms), len(model.forest.nodes))
                    # invariant after every op: observed placements equal the model's
                    try:
                        want = model.placements()
                    except Inapplicable:
                        continue
                    self.compare_placements(self.observed_placements(scene), want, ctx, "placement", "after-" + k)
                ctx.steps_sim += 1
            except Inapplicable:
                ctx.count("skip:inapplicable")
                continue
        ctx.step = "final"
        for obs in cfg["reads"]:
            try:
                self._read(scene, model, obs, st, ctx)
            except Inapplicable:
                pass
        ctx.event("final")

    # ------------------------------------------------------------------ reads
    def _shape_key(self, model):
        inst = model.instances()
        kinds = sorted({model.geoms[g]["kind"] for _, g, _ in inst})
        return f"i{len(inst)}g{len(model.geoms)}d{model.forest.depth()}{''.join(k[0] for k in kinds)}"

    def _read(self, scene, model, obs, st, ctx):
        from sim.core.engine import HarnessError, Violation

        try:
            return self._read_checked(scene, model, obs, st, ctx)
        except (Violation, Inapplicable, HarnessError):
            raise
        except Exception as e:
            # every read below is guarded so that the model defines the quantity; a read that raises there is a wrong answer
            if not _in_library(e):
                raise
            ctx.fail("read-raises", obs, f"{type(e).__name__}: {e}")

    def _read_checked(self, scene, model, obs, st, ctx):
        pl = model.placements()
        # (a world matrix within the graph's repair tolerance of a rotation is snapped to one: see Model.placements)
        RT = 1e-4 if any(len(p) > 4 and p[4] for p in pl.values()) else 1e-9
        allV = np.vstack([p[1] for p in pl.values() if len(p[1])]) if any(len(p[1]) for p in pl.values()) else np.zeros((0, 3))
        T = placed_triangles(pl)
        ctx.count("check:" + obs)
        ctx.reach(st["last"], self._shape_key(model), obs)

        def fail(detail):
            ctx.fail("read", obs, f"after {st['last']}: {detail}")

        if obs in ("bounds", "extents", "centroid", "scale"):
            got = getattr(scene, obs)
            if len(allV) == 0:
                if obs == "scale":
                    return
                if got is not None:
                    fail(f"empty scene reports {got}")
                return
            b = np.array([allV.min(axis=0), allV.max(axis=0)])
            want = {"bounds": b, "extents": b[1] - b[0], "centroid": b.mean(axis=0), "scale": float(np.linalg.norm(b[1] - b[0]))}[obs]
            bad = same(got, want, RT, obs) if got is not None else "None"
            if bad:
                fail(bad)
        elif obs == "bounds_corners":
            got = scene.bounds_corners
            for n, p in pl.items():
                if not len(p[1]):
                    continue
                if n not in got:
                    fail(f"node {n} missing")
                bad = same(got[n], np.array([p[1].min(axis=0), p[1].max(axis=0)]), RT, n)
                if bad:
                    fail(bad)
        elif obs == "area":
            # a planar drawing has an area too: that of its (single, closed, four-cornered) region as placed
            planar = 0.0
            for n, p in pl.items():
                if model.geoms[p[3]].get("dim") == 2:
                    Q = p[1]
                    planar += 0.5 * float(np.linalg.norm(sum(np.cross(Q[i], Q[(i + 1) % len(Q)]) for i in range(len(Q)))))
            bad = same(scene.area, tri_area(T) + planar, RT, "area")
            if bad:
                if self._instance_scaled(model) and ctx.is_known("C10-area-volume-ignore-instance-scale"):
                    self._finding_unscaled(scene, model, "area", ctx, fail)
                    return
                fail(bad)
        elif obs == "volume":
            if not all(is_closed(p[1], p[2]) for p in pl.values() if p[0] == "mesh"):
                # the enclosed volume of an open surface is origin dependent: not defined by the statement
                ctx.count("skip:volume-of-open-surface")
                return
            bad = same(scene.volume, tri_volume(T), RT, "volume")
            if bad:
                if self._instance_scaled(model) and ctx.is_known("C10-area-volume-ignore-instance-scale"):
                    self._finding_unscaled(scene, model, "volume", ctx, fail)
                    return
                fail(bad)
        elif obs == "triangles":
            if len(T) == 0:
                try:
                    got = scene.triangles
                except Exception as e:
                    if ctx.is_known("C10-triangles-raises-without-meshes"):
                        ctx.finding("C10-triangles-raises-without-meshes", type(e).__name__)
                        return
                    fail(f"raised {type(e).__name__}: {e} on a scene without triangles")
                if len(np.asarray(got).reshape(-1, 3, 3)) != 0:
                    fail("triangles reported for a scene without meshes")
                return
            if st.get("first_names"):
                # the names asked for before the triangles
                nodes = np.asarray(scene.triangles_node)
                got = np.asarray(scene.triangles)
            else:
                got = np.asarray(scene.triangles)
                nodes = np.asarray(scene.triangles_node)
            if len(nodes) != len(got):
                fail("triangles_node length differs")
            for n, p in pl.items():
                if p[0] != "mesh" or not len(p[2]):
                    continue
                bad = same(got[nodes == n], p[1][p[2]], RT, f"triangles[{n}]")
                if bad:
                    fail(bad)
            if len(got) != len(T):
                fail(f"{len(got)} triangles != {len(T)} placed")
        elif obs == "convex_hull":
            if len(allV) < 4:
                raise Inapplicable()
            from scipy.spatial import ConvexHull

            try:
                h = ConvexHull(allV)
            except Exception:
                raise Inapplicable()  # degenerate point set: no hull is defined
            got = scene.convex_hull
            bad = same(float(got.volume), float(h.volume), max(RT, 1e-7), "hull volume") or same(got.bounds, np.array([allV.min(axis=0), allV.max(axis=0)]), RT, "hull bounds")
            if bad:
                fail(bad)
        elif obs == "dump":
            got = scene.dump()
            if len(got) != len(pl):
                fail(f"{len(got)} dumped geometries != {len(pl)} instances")
            for g in got:
                n = g.metadata.get("node")
                if n not in pl:
                    fail(f"dumped geometry for unknown node {n}")
                V = np.asarray(g.vertices, dtype=float)
                if V.ndim == 2 and V.shape[1] == 2:
                    V = np.column_stack([V, np.zeros(len(V))])  # a drawing that stays in its plane is dumped as a planar drawing
                W = pl[n][1]
                if pl[n][0] == "path" and V.shape == W.shape and len(V):
                    V, W = V[np.lexsort(np.round(V, 7).T[::-1])], W[np.lexsort(np.round(W, 7).T[::-1])]
                bad = same(V, W, RT, f"dump[{n}].vertices")
                if not bad and pl[n][0] == "mesh":
                    bad = same(V[np.asarray(g.faces)] if len(g.faces) else np.zeros((0, 3, 3)), pl[n][1][pl[n][2]] if len(pl[n][2]) else np.zeros((0, 3, 3)), RT, f"dump[{n}].triangles")
                if bad:
                    fail(bad)
            # the dumped geometries are the caller's to do with as it likes: it moves them
            for g in got:
                try:
                    g.apply_translation([7.0, -3.0, 2.0])
                except (KeyboardInterrupt, SystemExit, MemoryError):
                    raise
                except BaseException:
                    pass
            ctx.count("fault:dumped-geometry-edited-by-the-caller")
        elif obs in ("to_mesh", "to_geometry"):
            if len(T) == 0:
                raise Inapplicable()
            kinds = {p[0] for p in pl.values()}
            if obs == "to_geometry" and kinds != {"mesh"}:
                raise Inapplicable()
            got = scene.to_mesh() if obs == "to_mesh" else scene.to_geometry()
            bad = same(canon_tris(np.asarray(got.triangles)), canon_tris(T), max(RT, 1e-6), obs)
            if bad:
                fail(bad)
            try:
                got.apply_translation([-4.0, 9.0, 1.0])  # (the concatenated mesh is the caller's too)
            except (KeyboardInterrupt, SystemExit, MemoryError):
                raise
            except BaseException:
                pass
        elif obs == "is_valid":
            pass
        elif obs == "geometry_nodes":
            got = {k: sorted(v) for k, v in scene.graph.geometry_nodes.items() if len(v)}
            want = {}
            for n, g in model.forest.geom.items():
                want.setdefault(g, []).append(n)
            want = {k: sorted(v) for k, v in want.items()}
            if got != want:
                fail(f"{got} != {want}")

    def _instance_scaled(self, model):
        for n, g, W in model.instances():
            if W is not None and abs(abs(mx.det3(W)) - 1.0) > 1e-9 and model.geoms[g]["kind"] == "mesh":
                return True
        return False

    def _finding_unscaled(self, scene, model, what, ctx, fail):
        """Recorded finding: area/volume are the instance-weighted sums of the *unscaled* geometry values."""
        total = 0.0
        for n, g, W in model.instances():
            rec = model.geoms[g]
            if rec["kind"] != "mesh":
                continue
            T = rec["V"][rec["F"]] if len(rec["F"]) else np.zeros((0, 3, 3))
            total += tri_area(T) if what == "area" else tri_volume(T)
        got = getattr(scene, what)
        if same(got, total, 1e-9, what):
            fail(f"{what} {got} is neither the placed value nor the recorded unscaled sum {total}")
        ctx.finding("C10-area-volume-ignore-instance-scale", what)

    # ------------------------------------------------------------------ ops
    def _handed(self, M):
        """A matrix as a caller hands it over: a float64 array the caller keeps and goes on using (see _caller_reuses)."""
        A = np.array(M, dtype=np.float64)
        self._mine.append(A)
        return A

    def _caller_reuses(self):
        # the caller's buffers are the caller's: it fills them with the next placement (instances built in a loop from one buffer)
        for A in self._mine:
            try:
                A[:3, 3] += 7.25
                A[:3, :3] = A[:3, :3][::-1]
            except ValueError:
                # the library froze the caller's own array: it is then at least not changed behind the scene's back
                pass
        self._mine = []

    def _pick_parent(self, model, idx, exclude=None):
        cands = [n for n in model.forest.nodes if n != exclude and (exclude is None or not model.forest.is_ancestor(exclude, n)) and model.forest.connected(n, model.forest.base)]
        if model.forest.base not in cands:
            cands.append(model.forest.base)
        return cands[idx % len(cands)]

    def _do(self, scene, model, op, st, ctx):
        import trimesh

        k = op["op"]
        f = model.forest
        if k == "add":
            node = op["node"]
            if node in f.nodes or node == f.base:
                raise Inapplicable()
            parent = self._pick_parent(model, op["parent"])
            g, rec = make_geometry(op["geom"])
            name = op["gname"]
            if name in model.geoms:
                raise Inapplicable()
            scene.add_geometry(g, node_name=node, geom_name=name, parent_node_name=parent, transform=self._handed(op["matrix"]))
            model.geoms[name] = rec
            f.update(node, parent, np.array(op["matrix"]), name)
            return scene, model
        if k == "instance":
            names = sorted(model.geoms)
            if not names:
                raise Inapplicable()
            name = names[op["g"] % len(names)]
            node = op["node"]
            if node in f.nodes or node == f.base:
                raise Inapplicable()
            parent = self._pick_parent(model, op["parent"])
            scene.graph.update(frame_to=node, frame_from=parent, matrix=self._handed(op["matrix"]), geometry=name)
            f.update(node, parent, np.array(op["matrix"]), name)
            return scene, model
        if k == "edge":
            cs = sorted(f.parent)
            if not cs:
                raise Inapplicable()
            c = cs[op["i"] % len(cs)]
            scene.graph.update(frame_to=c, frame_from=f.parent[c], matrix=self._handed(op["matrix"]))
            f.update(c, f.parent[c], np.array(op["matrix"]), None)
            return scene, model
        if k == "reparent":
            cs = sorted(n for n in f.parent if n != f.base)
            if not cs:
                raise Inapplicable()
            c = cs[op["i"] % len(cs)]
            parents = [n for n in f.nodes if n != c and not f.is_ancestor(c, n) and f.parent.get(c) != n and f.connected(n, f.base)]
            if not parents:
                raise Inapplicable()
            p = parents[op["j"] % len(parents)]
            scene.graph.update(frame_to=c, frame_from=p, matrix=self._handed(op["matrix"]))
            f.update(c, p, np.array(op["matrix"]), None)
            return scene, model
        if k == "remove_node":
            # remove a leaf node (removing an inner node would disconnect geometry: bounds then raise by design)
            leaves = sorted(n for n in f.nodes if n != f.base and n not in f.parent.values())
            if not leaves:
                raise Inapplicable()
            n = leaves[op["i"] % len(leaves)]
            scene.graph.transforms.remove_node(n)
            f.remove_node(n)
            return scene, model
        if k == "geom_edit":
            names = sorted(model.geoms)
            if not names:
                raise Inapplicable()
            name = names[op["i"] % len(names)]
            rec = model.geoms[name]
            g = scene.geometry[name]
            if len(rec["V"]) == 0 or rec.get("dim") == 2:
                raise Inapplicable()  # (planar drawings are placed, scaled and combined; their vertex edits are C14's business)
            route = op["route"]
            if route == "iadd":
                g.vertices[:] += op["d"]
                rec["V"] = rec["V"] + op["d"]
            elif route == "item":
                i = op["j"] % len(rec["V"])
                g.vertices[i, 0] += op["d"]
                rec["V"] = rec["V"].copy()
                rec["V"][i, 0] += op["d"]
            elif route == "assign":
                g.vertices = rec["V"] * 1.25
                rec["V"] = rec["V"] * 1.25
            elif route == "apply_translation":
                g.apply_translation([op["d"], 0, -op["d"]])
                rec["V"] = rec["V"] + np.array([op["d"], 0, -op["d"]])
            else:
                M = np.array(op["matrix"])
                g.apply_transform(M)
                rec["V"] = mx.apply(M, rec["V"])
            return scene, model
        if k == "add_duplicate":
            # a second geometry object with exactly the same arrays under another name
            names = sorted(model.geoms)
            node = op["node"]
            if not names or node in f.nodes or node == f.base:
                raise Inapplicable()
            src_name = names[op["i"] % len(names)]
            name = src_name + "_dup"
            if name in model.geoms:
                raise Inapplicable()
            parent = self._pick_parent(model, op["parent"])
            g = scene.geometry[src_name].copy()
            scene.add_geometry(g, node_name=node, geom_name=name, parent_node_name=parent, transform=self._handed(op["matrix"]))
            rec = model.geoms[src_name]
            model.geoms[name] = {"kind": rec["kind"], "V": rec["V"].copy(), "F": None if rec["F"] is None else rec["F"].copy(), "units": rec.get("units")}
            if rec.get("dim"):
                model.geoms[name]["dim"] = rec["dim"]
            f.update(node, parent, np.array(op["matrix"]), name)
            return scene, model
        if k == "geom_edit_all":
            # the same edit applied to every geometry (cancels in an order-insensitive / xor style hash)
            if not model.geoms:
                raise Inapplicable()
            for name in sorted(model.geoms):
                rec = model.geoms[name]
                g = scene.geometry[name]
                if len(rec["V"]) == 0 or rec.get("dim") == 2:
                    continue
                if op["route"] in ("iadd", "item", "apply_translation"):
                    g.apply_translation([op["d"], 0, -op["d"]])
                    rec["V"] = rec["V"] + np.array([op["d"], 0, -op["d"]])
                elif op["route"] == "assign":
                    g.vertices = rec["V"] * 1.25
                    rec["V"] = rec["V"] * 1.25
                else:
                    g.apply_scale(1.0 + op["d"])
                    rec["V"] = rec["V"] * (1.0 + op["d"])
            return scene, model
        if k == "swap_geometry":
            names = sorted(model.geoms)
            if len(names) < 2:
                raise Inapplicable()
            a, b = names[op["i"] % len(names)], names[(op["i"] + 1 + op["j"] % (len(names) - 1)) % len(names)]
            if a == b:
                raise Inapplicable()
            scene.geometry[a], scene.geometry[b] = scene.geometry[b], scene.geometry[a]
            model.geoms[a], model.geoms[b] = model.geoms[b], model.geoms[a]
            return scene, model
        if k == "set_base":
            cands = sorted(n for n in f.nodes if n != f.base and f.connected(n, f.base))
            if not cands:
                raise Inapplicable()
            n = cands[op["i"] % len(cands)]
            scene.graph.base_frame = n
            f.base = n
            return scene, model
        if k == "delete_geometry":
            names = sorted(model.geoms)
            if not names:
                raise Inapplicable()
            name = names[op["i"] % len(names)]
            scene.delete_geometry(name)
            del model.geoms[name]
            for n in [n for n, g in f.geom.items() if g == name]:
                del f.geom[n]
            return scene, model
        if k == "replace_geometry":
            names = sorted(model.geoms)
            if not names:
                raise Inapplicable()
            name = names[op["i"] % len(names)]
            g, rec = make_geometry(op["geom"])
            scene.geometry[name] = g
            model.geoms[name] = rec
            return scene, model
        if k == "cache_clear":
            ctx.count("fault:cache_clear")
            scene._cache.clear()
            scene.graph._cache.clear()
            return scene, model
        # ---------------------------------------------------------------- derived-scene operations
        if k not in DERIVED:
            raise Inapplicable()
        src = model.placements()
        if not src and k in ("scaled", "scaled3", "convert_units", "subscene"):
            # a scene without instances has no placement to preserve
            raise Inapplicable()
        if f.base in f.parent and k not in ("copy", "subscene"):
            # these re-hang or extend the graph at the base frame and assume it is a root
            raise Inapplicable()
        before = self.snapshot(scene)
        by_name = True
        in_place = False
        other = other_before = None
        if k == "copy":
            result = scene.copy()
            want = src
        elif k == "scaled":
            s = op["scale"]
            result = scene.scaled(s if op["form"] == "float" else [s, s, s])
            # (a negative factor is a point reflection: placing a mesh by it re-winds its faces, as every mirrored placement does)
            want = {n: (p[0], p[1] * s, p[2] if s > 0 or p[2] is None else np.asarray(p[2])[:, ::-1], p[3], *p[4:]) for n, p in src.items()}
        elif k == "scaled3":
            s = np.array(op["scale"], dtype=float)
            if not src:
                raise Inapplicable()
            if any(p[0] == "points" for p in src.values()):
                pass
            result = scene.scaled(list(op["scale"]))
            want = {n: (p[0], p[1] * s, p[2], p[3], *p[4:]) for n, p in src.items()}
        elif k == "convert_units":
            units = {r["units"] for r in model.geoms.values()}
            if len(units) != 1 or None in units or not model.geoms:
                raise Inapplicable()
            fac = TO_M[units.pop()] / TO_M[op["to"]]
            result = scene.convert_units(op["to"])
            want = {n: (p[0], p[1] * fac, p[2], p[3], *p[4:]) for n, p in src.items()}
        elif k == "rezero":
            allV = [p[1] for p in src.values() if len(p[1])]
            if not allV:
                raise Inapplicable()
            allV = np.vstack(allV)
            c = (allV.min(axis=0) + allV.max(axis=0)) / 2
            scene.rezero()
            result, in_place = scene, True
            want = {n: (p[0], p[1] - c, p[2], p[3], *p[4:]) for n, p in src.items()}
        elif k == "apply_transform":
            if f.base not in f.nodes or not [c for c, p in f.parent.items() if p == f.base]:
                raise Inapplicable()
            M = np.array(op["matrix"])
            scene.apply_transform(M)
            result, in_place = scene, True
            # placements of instances connected through children of the base frame move by M
            want = {n: (p[0], mx.apply(M, p[1]), p[2], p[3], *p[4:]) for n, p in src.items()}
        elif k == "subscene":
            cands = sorted(n for n in f.nodes if n != f.base and f.connected(n, f.base))
            if not cands:
                raise Inapplicable()
            node = cands[op["i"] % len(cands)]
            result = scene.subscene(node)
            inv = np.linalg.inv(f.T(f.base, node))
            want = {n: (p[0], mx.apply(inv, p[1]), p[2], p[3], *p[4:]) for n, p in src.items() if f.is_ancestor(node, n)}
            if node in want and node not in self.observed_placements(result) and ctx.is_known("C10-subscene-drops-root-geometry"):
                ctx.finding("C10-subscene-drops-root-geometry", node)
                del want[node]
        elif k in ("add_scene", "add_self"):
            if k == "add_self":
                if f.base not in f.nodes or not [c for c, p in f.parent.items() if p == f.base]:
                    raise Inapplicable()
                other = scene.copy()
                other.apply_transform(mx.hom(None, [3.0, 0.5, -1.0]))
                omodel_pl = {n: (p[0], p[1] + np.array([3.0, 0.5, -1.0]), p[2], p[3], *p[4:]) for n, p in src.items()}
            else:
                other = trimesh.Scene()
                om = Model("world")
                for item in op["other"]:
                    g, rec = make_geometry(item["geom"])
                    if item["gname"] in om.geoms or item["node"] in om.forest.nodes or item["node"] == f.base:
                        # (a node of the right operand named like the left operand's base frame is identified with it
                        #  by name: a naming hazard the statement does not speak about)
                        continue
                    other.add_geometry(g, node_name=item["node"], geom_name=item["gname"], transform=self._handed(item["matrix"]))
                    om.geoms[item["gname"]] = rec
                    om.forest.update(item["node"], "world", np.array(item["matrix"]), item["gname"])
                omodel_pl = om.placements()
                if op.get("rezero_other") and omodel_pl:
                    # the right operand was re-zeroed first (its base frame is then an offset frame above its 'world')
                    allp = np.vstack([p[1] for p in omodel_pl.values()])
                    c = (allp.min(axis=0) + allp.max(axis=0)) / 2.0
                    other.rezero()
                    if not np.allclose(c, 0.0):
                        omodel_pl = {n: (p[0], p[1] - c, p[2], p[3], *p[4:]) for n, p in omodel_pl.items()}
            other_before = self.snapshot(other)
            result = scene + other
            want = {("a", n): p for n, p in src.items()}
            want.update({("b", n): p for n, p in omodel_pl.items()})
            by_name = False
        else:
            raise Inapplicable()

        ctx.reach(k, self._shape_key(model), str(op.get("cls", "")))
        got = self.observed_placements(result)
        try:
            self.compare_placements(got, want, ctx, "derived", k, by_name=by_name)
        except Exception as v:
            # recorded finding: per-axis scaling of an instance below a rotated frame
            from ..core.engine import Violation

            if isinstance(v, Violation) and k == "scaled3" and ctx.is_known("C10-scaled3-rotated-parent") and self._has_rotated_nested(model):
                ctx.finding("C10-scaled3-rotated-parent", v.detail[:100])
            else:
                raise
        if not in_place:
            after = self.snapshot(scene)
            if after != before:
                diff = [key for key in before if before[key] != after.get(key)]
                ctx.fail("source-unchanged", k, f"source scene changed in {diff}")
            if other is not None and self.snapshot(other) != other_before:
                ctx.fail("source-unchanged", k + "-right-operand", "right operand changed")
        return result, self.rebuild_model(result)

    def _has_rotated_nested(self, model):
        f = model.forest
        for n, g, W in model.instances():
            ch = f.chain(n)
            if len(ch) > 2:
                for x in ch[1:-1]:
                    if x in f.mat and np.abs(f.mat[x][:3, :3] - np.eye(3) * f.mat[x][0, 0]).max() > 1e-9:
                        return True
        return False

    # ------------------------------------------------------------------ shrinking
    def simplify_op(self, op):
        out = []
        if "matrix" in op and op.get("cls") not in (None, "identity"):
            out.append(dict(op, matrix=np.eye(4).tolist(), cls="identity"))
            for M in mx.simpler(op.get("cls", "")):
                out.append(dict(op, matrix=M))
        if op.get("geom", {}).get("kind") == "mesh":
            g = dict(op["geom"])
            m = dict(g["mesh"], base="tetra", variant="plain", offset=[0.0, 0.0, 0.0], size=1.0)
            if m != g["mesh"]:
                out.append(dict(op, geom=dict(g, mesh=m)))
        return out

    def finding_programs(self, known):
        box = {"kind": "mesh", "salt": 1, "units": None, "mesh": {"base": "box", "variant": "plain", "salt": 1, "jitter": 0.03, "offset": [0.0, 0.0, 0.0], "size": 1.0}}
        S2 = (np.eye(4) * [2, 2, 2, 1]).tolist()
        progs = []
        cfg = {"reads": [], "units": None, "kinds": ["mesh"]}
        progs.append(("C10-area-volume-ignore-instance-scale", {"config": cfg, "seed": 1, "ops": [
            {"op": "add", "geom": box, "gname": "g0", "node": "n0", "parent": 0, "cls": "uniform_scale", "matrix": S2, "rs": 1},
            {"op": "read", "obs": "area", "rs": 1}, {"op": "read", "obs": "volume", "rs": 1}]}))
        return progs


def _mut_bounds_parent_transform():
    import trimesh
    S = trimesh.Scene
    orig = S.__dict__["bounds_corners"]

    def bc(self):
        out = orig.fget(self)
        # use only the rotation of the node transform for nested nodes: translation forgotten for depth > 1
        res = {}
        for n, c in out.items():
            p = self.graph.transforms.parents.get(n)
            if p is not None and p != self.graph.base_frame:
                res[n] = c - self.graph[n][0][:3, 3] + self.graph.transforms.edge_data[(p, n)]["matrix"][:3, 3]
            else:
                res[n] = c
        return res

    S.bounds_corners = property(bc)
    return lambda: setattr(S, "bounds_corners", orig)


def _mut_copy_shares_geometry():
    import trimesh
    S = trimesh.Scene
    orig = S.copy

    def copy(self):
        c = orig(self)
        for k in list(c.geometry.keys()):
            c.geometry[k] = self.geometry[k]
        return c

    S.copy = copy
    return lambda: setattr(S, "copy", orig)


def _mut_dump_ignores_instance():
    import trimesh
    S = trimesh.Scene
    orig = S.dump

    def dump(self, concatenate=False):
        out = orig(self, concatenate)
        return out

    S.dump = dump
    return lambda: setattr(S, "dump", orig)


C10.MUTANTS = {"bounds-corners-use-edge-translation-for-nested-nodes": _mut_bounds_parent_transform, "scaled-copy-shares-geometry-with-source": _mut_copy_shares_geometry}

WORLD = C10()
