"""
C02 - the content hash of tracked arrays always reflects their current bytes.

Program machine: <= 5 handles (views and copies) onto one root array that lives bare or inside a
mesh / point cloud / path / colour visual / scene; writes through any handle by any numpy route,
hash reads scheduled anywhere. Oracle: hash == hash_fast(bytes) for every tracked handle at every
hash read and at the end, container hash == hash of a freshly built equal container.
A plain-ndarray mirror replays every op so the harness knows the true bytes independently.
"""
import numpy as np

from ..core.engine import HarnessError, Inapplicable, seed_lib_rng
from ..core.world import World, pick, swarm_weights

CONTEXTS = ["bare_f", "bare_i", "bare_u", "mesh_vertices", "mesh_faces", "pc_vertices", "path_vertices", "visual_face_colors", "scene_mesh_vertices", "visual_vertex_colors", "pc_colors", "texture_uv", "scene_spare_geometry"]

# routes that go through a method TrackedArray overrides: the array's own flag must be set
TRACKED_ROUTES = [
    "setitem_index", "setitem_slice", "setitem_mask", "setitem_fancy", "setitem_ellipsis",
    "iadd", "isub", "imul", "itruediv", "ifloordiv", "imod", "ipow",
    "ilshift", "irshift", "iand", "ior", "ixor", "imatmul",
    "fill", "put", "sort", "partition", "byteswap_inplace", "np_put", "shuffle", "idiom_slice_iadd", "idiom_col_imul", "imul_neg", "setitem_partial_fail",
    "setitem_empty_tuple", "setitem_tuple_of_arrays", "setitem_newaxis", "setitem_bool_scalar", "setitem_mask_row",
    "put_partial_fail", "idiv_partial_fail", "byteswap_keyword",
]
# routes that raise AFTER numpy has already stored part of the result: the array went through its own method all the same
PARTIAL_FAIL = {"setitem_partial_fail", "put_partial_fail", "idiv_partial_fail"}
# routes numpy offers that bypass every overridden method (recorded findings on the unchanged tree)
UNTRACKED_ROUTES = [
    "copyto", "ufunc_out", "ufunc_at", "flat_assign", "fill_diagonal", "clip_out", "cumsum_out",
    "real_assign", "memoryview", "frombuffer", "nditer", "place", "putmask", "maximum_out",
]
DERIVES_VIEW = ["slice_rows", "slice_step", "col", "row", "T", "reshape_flat", "ravel", "view_tracked", "view_ndarray", "asarray", "iter_row"]
DERIVES_COPY = ["fancy", "copy", "astype", "add0", "deepcopy", "pickle"]
# derive ops after which __array_finalize__ is documented to mark the *source* dirty
MARKS_SOURCE = {"slice_rows", "slice_step", "col", "row", "T", "reshape_flat", "ravel", "view_tracked", "fancy", "copy", "astype", "iter_row"}
READONLY = ["sum", "compare", "tobytes", "np_sort", "min", "tolist", "len", "dot", "mean", "argsort", "repr"]

OP_KINDS = ["derive_view", "derive_copy", "write_tracked", "write_untracked", "hash", "hash_all", "container_hash", "readonly", "setflags", "reassign"]


def _initial(kind, n, salt):
    r = np.random.RandomState(salt % (2**32))
    if kind == "f":
        out = np.round(r.uniform(-3, 3, (n, 3)), 3) + 0.125
        if salt % 3 == 0:
            out[:, 2] = 0.0  # a flat drawing: a whole column of exact zeros (their sign bit is part of the bytes)
        elif salt % 3 == 1:
            out[0, 0] = 0.0
        return out
    if kind == "i":
        return r.randint(0, max(n, 4), (n, 3)).astype(np.int64)
    return r.randint(0, 255, (n, 4)).astype(np.uint8)


def _derive(kind, x, p, tracked_cls=None):
    nd = x.ndim
    if kind == "slice_rows":
        if len(x) < 1:
            raise Inapplicable()
        a = p.get("a", 0) % len(x)
        b = a + 1 + p.get("b", 0) % (len(x) - a)
        return x[a:b]
    if kind == "slice_step":
        return x[:: 2]
    if kind == "col":
        if nd != 2:
            raise Inapplicable()
        return x[:, p.get("j", 0) % x.shape[1]]
    if kind == "row":
        if nd != 2 or len(x) == 0:
            raise Inapplicable()
        return x[p.get("i", 0) % len(x)]
    if kind == "iter_row":
        # a row handed out by the array's own iteration (for row in a: ...)
        if nd != 2 or len(x) == 0:
            raise Inapplicable()
        return list(iter(x))[p.get("i", 0) % len(x)]
    if kind == "T":
        if nd != 2:
            raise Inapplicable()
        return x.T
    if kind == "reshape_flat":
        return x.reshape(-1)
    if kind == "ravel":
        return x.ravel()
    if kind == "view_tracked":
        return x.view(tracked_cls) if tracked_cls is not None else x.view()
    if kind == "view_ndarray":
        return x.view(np.ndarray)
    if kind == "asarray":
        # on the plain mirror np.asarray would return the very same object: take a new view instead
        return np.asarray(x) if tracked_cls is not None else x.view()
    if kind == "fancy":
        if len(x) == 0:
            raise Inapplicable()
        return x[[i % len(x) for i in p.get("idx", [0, 1])]]
    if kind == "copy":
        return x.copy()
    if kind == "deepcopy":
        import copy as _copy

        return _copy.deepcopy(x)
    if kind == "pickle":
        import pickle as _pickle

        return _pickle.loads(_pickle.dumps(x))
    if kind == "astype":
        return x.astype(x.dtype)
    if kind == "add0":
        return x + 0
    raise Inapplicable()


def _val(x, v):
    """A scalar of x's dtype from the op's integer value (never equal to a typical existing value)."""
    if x.dtype.kind == "f":
        return float(v) + 0.4375
    if x.dtype.kind == "u":
        return int(v) % 256
    return int(v)


def _write(route, x, mir, p):
    """Apply write `route` to x. Index/mask arguments are computed from the mirror only."""
    v = _val(x, p.get("v", 7))
    n = x.shape[0] if x.ndim else 0
    if x.size == 0:
        raise Inapplicable()
    if route == "setitem_index":
        x[tuple(i % s for i, s in zip(p.get("idx", [0, 0]), x.shape))] = v
    elif route == "setitem_slice":
        x[p.get("a", 0) % n : ] = v
    elif route == "setitem_mask":
        m = np.asarray(mir) > np.sort(np.asarray(mir).reshape(-1))[p.get("k", 1) % mir.size]
        if not m.any():
            m = np.ones(mir.shape, dtype=bool)
        x[m] = v
    elif route == "setitem_fancy":
        x[[i % n for i in p.get("rows", [0])]] = v
    elif route == "setitem_ellipsis":
        x[...] = v
    elif route == "setitem_empty_tuple":
        # the empty tuple is a complete index: every element
        x[()] = v
    elif route == "setitem_tuple_of_arrays":
        rows = [i % n for i in p.get("rows", [0])]
        if x.ndim >= 2:
            x[(np.array(rows), np.zeros(len(rows), dtype=np.int64))] = v
        else:
            x[(np.array(rows),)] = v
    elif route == "setitem_newaxis":
        x[None, ...] = v
    elif route == "setitem_bool_scalar":
        # a 0-d boolean index selects everything
        x[True] = v
    elif route == "setitem_mask_row":
        # a one-dimensional mask over the first axis
        m = np.zeros(n, dtype=bool)
        m[p.get("k", 1) % n] = True
        x[m] = v
    elif route == "setitem_partial_fail":
        # an assignment numpy converts element by element and that fails at the LAST element: everything before it is already stored
        vals = np.empty(x.shape, dtype=object)
        vals[...] = v
        vals.reshape(-1)[-1] = "not a number"
        if p.get("k", 0) % 2:
            x[...] = vals
        else:
            x[np.ones(x.shape, dtype=bool)] = vals.reshape(-1)
    elif route == "iadd":
        x += _val(x, p.get("d", 1)) if x.dtype.kind == "f" else 1 + p.get("d", 1) % 5
    elif route == "isub":
        x -= _val(x, p.get("d", 1)) if x.dtype.kind == "f" else 1 + p.get("d", 1) % 5
    elif route == "imul":
        x *= 3
    elif route == "imul_neg":
        if x.dtype.kind == "u":
            raise Inapplicable()
        x *= -1  # mirrors a flat mesh: 0.0 becomes -0.0, one bit per zero
    elif route == "put_partial_fail":
        # numpy checks the indices while it writes: the first items are stored, then the bad index raises
        x.put([0, min(1, x.size - 1), x.size + 5], [v, v, v])
    elif route == "idiv_partial_fail":
        # a floating point trap (the caller asked numpy to raise on division by zero): everything is divided, then it raises
        div = np.full(x.shape[-1] if x.ndim else 1, 2, dtype=x.dtype)
        div[-1] = 0
        with np.errstate(divide="raise", invalid="raise"):
            if x.dtype.kind == "f":
                x /= div
            else:
                x //= div
    elif route == "byteswap_keyword":
        if x.dtype.itemsize < 2:
            raise Inapplicable()
        x.byteswap(inplace=True)
    elif route == "itruediv":
        if x.dtype.kind != "f":
            raise Inapplicable()
        x /= 4.0
    elif route == "ifloordiv":
        x //= 2
    elif route == "imod":
        x %= 3
    elif route == "ipow":
        x **= 2
    elif route in ("ilshift", "irshift", "iand", "ior", "ixor"):
        if x.dtype.kind == "f":
            raise Inapplicable()
        if route == "ilshift":
            x <<= 1
        elif route == "irshift":
            x >>= 1
        elif route == "iand":
            x &= 6
        elif route == "ior":
            x |= 9
        else:
            x ^= 5
    elif route == "imatmul":
        if x.ndim != 2:
            raise Inapplicable()
        x @= (np.eye(x.shape[1]) * 2).astype(x.dtype)
    elif route == "fill":
        x.fill(v)
    elif route == "put":
        x.put([p.get("i", 0) % x.size], [v])
    elif route == "np_put":
        np.put(x, [p.get("i", 0) % x.size], [v])
    elif route == "sort":
        x.sort(axis=0)
    elif route == "partition":
        if n < 2:
            raise Inapplicable()
        x.partition(n - 1, axis=0)
    elif route == "byteswap_inplace":
        x.byteswap(inplace=True)
    elif route == "idiom_slice_iadd":
        x[p.get("a", 0) % n :] += 1 if x.dtype.kind != "f" else 0.5
    elif route == "idiom_col_imul":
        if x.ndim != 2:
            raise Inapplicable()
        x[:, p.get("j", 0) % x.shape[1]] *= 2
    # ---------------- routes that bypass the subclass
    elif route == "copyto":
        np.copyto(x, v)
    elif route == "ufunc_out":
        np.add(mir, 1 if x.dtype.kind != "f" else 0.5, out=x, casting="unsafe")
    elif route == "maximum_out":
        np.maximum(mir, v, out=x, casting="unsafe")
    elif route == "ufunc_at":
        np.add.at(x, ([p.get("i", 0) % n],), 1)
    elif route == "flat_assign":
        x.flat[p.get("i", 0) % x.size] = v
    elif route == "fill_diagonal":
        if x.ndim != 2:
            raise Inapplicable()
        np.fill_diagonal(x, v)
    elif route == "clip_out":
        lo = np.sort(np.asarray(mir).reshape(-1))[mir.size // 2]
        np.clip(mir, lo, None, out=x)
    elif route == "cumsum_out":
        np.cumsum(mir, axis=0, out=x)
    elif route == "real_assign":
        x.real = v
    elif route == "memoryview":
        if not (x.flags["C_CONTIGUOUS"]):
            raise Inapplicable()
        memoryview(x).cast("B")[p.get("i", 0) % x.nbytes] = (p.get("v", 7) * 37 + 11) % 256
    elif route == "frombuffer":
        if not (x.flags["C_CONTIGUOUS"]):
            raise Inapplicable()
        np.frombuffer(x, dtype=x.dtype)[p.get("i", 0) % x.size] = v
    elif route == "nditer":
        with np.nditer(x, op_flags=["readwrite"]) as it:
            for e in it:
                e[...] = v
                break
    elif route == "place":
        m = np.zeros(mir.shape, dtype=bool)
        m.reshape(-1)[p.get("i", 0) % m.size] = True
        np.place(x, m, [v])
    elif route == "putmask":
        m = np.zeros(mir.shape, dtype=bool)
        m.reshape(-1)[p.get("i", 0) % m.size] = True
        np.putmask(x, m, v)
    elif route == "shuffle":
        if n < 2:
            raise Inapplicable()
        np.random.RandomState(p.get("v", 7)).shuffle(x)
    else:
        raise Inapplicable()


def _builtin_hash(v):
    """What the builtin hash() reports for an object whose __hash__ returns the Python int v."""
    if -(2**63) <= v < 2**63:
        return -2 if v == -1 else v
    return hash(v)


class H:
    __slots__ = ("arr", "mir", "tracked", "parent", "m_dirty", "last", "pending", "how")

    def __init__(self, arr, mir, tracked, parent, how):
        self.arr, self.mir, self.tracked, self.parent, self.how = arr, mir, tracked, parent, how
        self.m_dirty = True  # a new array has never been hashed
        self.last = None
        self.pending = []


class C02(World):
    ID = "C02"
    RUNS = {"quick": 700000, "thorough": 30000000}
    WALL = {"quick": 100.0, "thorough": 1700.0}
    BLOCK = 1500
    RULE = (
        "one evaluation = one seeded program (2-12 numpy ops: view/copy creation, writes by 27 tracked and 14 untracked routes through any "
        "handle, read-only ops, hash reads, container hash reads, setflags, reassignment) on a root array stored bare or in a mesh/point "
        "cloud/path/colour visual/scene, mirrored op by op on a plain ndarray; distinct_nontrivial counts distinct "
        "(context, write route, writer-vs-hashed-handle relation, was-a-view-derived-since-last-hash, outcome) tuples seen at a hash check"
    )
    SIM_UNIT = "numpy operations executed"
    LEVEL_TEXT = (
        "Seeded search over programs of numpy operations on TrackedArray handles with hash reads scheduled at any point; after every hash "
        "read and at the end hash == hash_fast(bytes) for every tracked handle, and container hashes (mesh, point cloud, path, visual, scene) "
        "equal those of freshly built equal containers. Routes/aliasing classes that are broken on the unchanged tree are recorded findings "
        "with a narrow signature; everything else is a VIOLATION. Exploration over ~1e5 programs per quick run."
    )
    LEVEL_NOTE = (
        "Trusted: numpy semantics of the mirror (a plain ndarray replaying each op), xxhash via hash_fast as the reference hash. The finding "
        "classifier uses a model of which events are promised to set an array's own dirty flag (own overridden-method write; view/copy derived "
        "directly from it); a stale hash while that model says dirty is always a violation."
    )
    COMPONENTS = {
        "real": ["caching.TrackedArray", "caching.tracked_array", "caching.DataStore", "Geometry.__hash__", "Path.__hash__", "Scene.__hash__", "ColorVisuals.__hash__", "numpy"],
        "simulated": ["the program (schedule of writes, view creations and hash reads)", "np.random (seeded)"],
        "stubbed": [],
    }
    ASSUMPTIONS = ["arrays have <= 6 rows; dtypes float64 (n,3), int64 (n,3), uint8 (n,4) as stored by the library"]

    def swarm(self, rng):
        kinds = list(OP_KINDS)
        w = swarm_weights(rng, kinds, keep_p=0.7, always=("write_tracked", "hash"))
        pool = rng.choice(["clean", "clean", "mixed"])
        if pool == "clean":
            w.pop("write_untracked", None)
        return {
            "weights": w,
            "pool": pool,
            "context": rng.choice(CONTEXTS + ["store_members"]),
            "n": rng.choice([2, 3, 4, 6]),
            "n_ops": rng.choice([2, 3, 4, 5, 6, 8, 12]),
            "plain_views": pool == "mixed" or rng.random() < 0.3,
            "prehash": rng.random() < 0.5,
        }

    def generate(self, rng, config):
        if config["context"] == "store_members":
            return self._generate_store(rng, config)
        ops = []
        w = config["weights"]
        nh = 1  # number of handles that will exist (root = 0); derive ops may be skipped at run time
        for _ in range(config["n_ops"]):
            kind = pick(rng, w)
            op = {"op": kind, "rs": rng.randrange(2**31), "h": rng.randrange(nh)}
            if kind == "derive_view":
                ks = [k for k in DERIVES_VIEW if config["plain_views"] or k not in ("view_ndarray", "asarray")]
                op.update({"kind": rng.choice(ks), "a": rng.randrange(4), "b": rng.randrange(4), "j": rng.randrange(4), "i": rng.randrange(6)})
                nh += 1
            elif kind == "derive_copy":
                op.update({"kind": rng.choice(DERIVES_COPY), "idx": [rng.randrange(6) for _ in range(rng.randint(1, 3))]})
                nh += 1
            elif kind in ("write_tracked", "write_untracked"):
                routes = TRACKED_ROUTES if kind == "write_tracked" else UNTRACKED_ROUTES
                op.update({
                    "route": rng.choice(routes), "v": rng.randrange(1, 200), "d": rng.randrange(1, 9), "a": rng.randrange(4), "j": rng.randrange(4),
                    "i": rng.randrange(64), "k": rng.randrange(8), "idx": [rng.randrange(6), rng.randrange(4)], "rows": [rng.randrange(6) for _ in range(rng.randint(1, 2))],
                })
            elif kind == "hash":
                op["via"] = rng.choice(["dunder", "dunder", "builtin"])
            elif kind == "readonly":
                op["kind"] = rng.choice(READONLY)
            elif kind == "setflags":
                op["write"] = rng.random() < 0.5
            elif kind == "reassign":
                op["same_object"] = rng.random() < 0.3
                op["prehashed"] = rng.random() < 0.5
                op["v"] = rng.randrange(1, 200)
            ops.append(op)
        return {"config": config, "ops": ops}

    # ------------------------------------------------------------------ containers with several members
    STORE_KINDS = ["datastore", "texture_channels", "mesh_store"]

    def _generate_store(self, rng, config):
        ops = []
        for _ in range(config["n_ops"]):
            k = rng.choice(["write", "write", "swap", "equalise", "reassign_equal", "check", "check", "member_hash"])
            ops.append({"op": k, "rs": rng.randrange(2**31), "m": rng.randrange(2), "route": rng.choice(["setitem_index", "setitem_slice", "iadd", "fill", "imul", "sort"]), "v": rng.randrange(1, 200), "d": rng.randrange(1, 9),
                        "a": rng.randrange(4), "idx": [rng.randrange(6), rng.randrange(4)]})
        return {"config": dict(config, store=rng.choice(self.STORE_KINDS), equal_start=rng.random() < 0.3), "ops": ops}

    def _execute_store(self, program, ctx):
        """A container whose hash is built from the hashes of several tracked members: its hash must follow the bytes of every member -
        also when two members hold equal bytes, exchange their contents, or receive the same write."""
        import trimesh
        from trimesh.caching import DataStore

        cfg = program["config"]
        seed = program.get("seed", 0)
        n = max(cfg["n"], 4)
        kind = cfg.get("store", "datastore")
        width = 2 if kind == "texture_channels" else 3
        A = np.round(np.random.RandomState(seed % (2**32)).uniform(0, 1, (n, width)), 3)
        B = A.copy() if cfg.get("equal_start") else np.round(np.random.RandomState((seed + 1) % (2**32)).uniform(0, 1, (n, width)), 3)
        keys = {"datastore": ("a", "b"), "texture_channels": ("uv", "uv_1"), "mesh_store": ("vertices", "vertex_normals")}[kind]

        def build(a, b):
            if kind == "datastore":
                ds = DataStore()
                ds[keys[0]], ds[keys[1]] = np.array(a), np.array(b)
                return ds, ds, ds
            if kind == "texture_channels":
                vis = trimesh.visual.TextureVisuals(uv=np.array(a))
                vis.vertex_attributes[keys[1]] = np.array(b)
                return vis, vis.vertex_attributes, vis
            # the mesh data store with a second float member of the same shape (supplied vertex normals live in it)
            m = trimesh.Trimesh(vertices=np.array(a), faces=np.array([[0, 1, 2], [0, 2, 3]]), process=False)
            m._data[keys[1]] = np.array(b)
            return m, m._data, m._data

        obj, store, hashed = build(A, B)
        mir = [A.copy(), B.copy()]
        seen = {}

        def check(tag):
            got = hashed.__hash__()
            want = build(mir[0], mir[1])[2].__hash__()
            ctx.count("check:store_hash")
            if got != want:
                ctx.fail("container", kind, f"{tag}: store hash {got} != hash of a freshly built equal store {want}")
            key = (mir[0].tobytes(), mir[1].tobytes())
            for k2, h2 in seen.items():
                if (k2 == key) != (h2 == got):
                    ctx.fail("container", kind + ("-hash-changed-without-byte-change" if k2 == key else "-hash-blind-to-byte-change"), f"{tag}: store hash {got} vs earlier {h2} for {'the same' if k2 == key else 'different'} member bytes")
            seen[key] = got

        check("initial")
        for step, op in enumerate(program["ops"]):
            ctx.step = step
            k, m = op["op"], op["m"]
            arr = [store[keys[0]], store[keys[1]]]
            try:
                if k == "write":
                    snap = mir[m].copy()
                    _write(op["route"], mir[m], snap, op)
                    _write(op["route"], arr[m], snap, op)
                elif k == "swap":
                    tmp = np.array(arr[0])
                    arr[0][...] = arr[1]
                    arr[1][...] = tmp
                    mir[0], mir[1] = mir[1].copy(), mir[0].copy()
                elif k == "equalise":
                    arr[1 - m][...] = arr[m]
                    mir[1 - m] = mir[m].copy()
                elif k == "reassign_equal":
                    store[keys[1 - m]] = np.array(mir[m])
                    mir[1 - m] = mir[m].copy()
                elif k == "member_hash":
                    arr[m].__hash__()
                elif k == "check":
                    check(f"after {program['ops'][step - 1]['op'] if step else 'build'}")
            except Inapplicable:
                ctx.count("skip:inapplicable")
                continue
            for i in (0, 1):
                if np.asarray(store[keys[i]]).tobytes() != mir[i].tobytes():
                    raise HarnessError(f"store mirror {i} diverged after {k}")
            ctx.count("op:store_" + k)
            ctx.steps_sim += 1
            ctx.reach("store", kind, k, op.get("route") if k == "write" else "")
            ctx.event(step, k, kind)
        ctx.step = "final"
        check("final")

    # ------------------------------------------------------------------ world construction
    def _build(self, cfg, seed):
        import trimesh
        from trimesh.caching import tracked_array

        ctxn = cfg["context"]
        n = cfg["n"]
        cont = {"kind": ctxn, "obj": None}
        if ctxn.startswith("bare_"):
            data = _initial(ctxn[-1], n, seed)
            root = tracked_array(data.copy())
        elif ctxn in ("mesh_vertices", "scene_mesh_vertices", "mesh_faces", "visual_face_colors", "scene_spare_geometry"):
            nv = max(n, 4)
            V = _initial("f", nv, seed)
            F = np.array([[0, 1, 2], [0, 2, 3], [0, 3, 1], [1, 3, 2]][: max(2, min(4, n))], dtype=np.int64)
            if ctxn == "visual_face_colors":
                C = _initial("u", len(F), seed + 1)
                mesh = trimesh.Trimesh(vertices=V, faces=F, face_colors=C, process=False)
                root = mesh.visual.face_colors
                data = C
            else:
                mesh = trimesh.Trimesh(vertices=V, faces=F, process=False)
                root = mesh.faces if ctxn == "mesh_faces" else mesh.vertices
                data = F if ctxn == "mesh_faces" else V
            cont["obj"] = mesh
            if ctxn == "scene_spare_geometry":
                # the mesh sits in the scene's geometry without a node that places it (a part kept for later): still part of the scene
                sc = trimesh.Scene()
                sc.add_geometry(trimesh.Trimesh(vertices=V + 1, faces=F, process=False), node_name="n1", geom_name="g1")
                sc.geometry["g0"] = mesh
                cont["scene"] = sc
            if ctxn == "scene_mesh_vertices":
                sc = trimesh.Scene()
                sc.add_geometry(mesh, node_name="n0", geom_name="g0")
                sc.add_geometry(trimesh.Trimesh(vertices=V + 1, faces=F, process=False), node_name="n1", geom_name="g1")
                cont["scene"] = sc
        elif ctxn == "visual_vertex_colors":
            V = _initial("f", max(n, 4), seed)
            F = np.array([[0, 1, 2], [0, 2, 3], [0, 3, 1], [1, 3, 2]], dtype=np.int64)
            data = _initial("u", len(V), seed + 1)
            mesh = trimesh.Trimesh(vertices=V, faces=F, vertex_colors=data.copy(), process=False)
            cont["obj"] = mesh
            root = mesh.visual.vertex_colors
        elif ctxn == "pc_colors":
            V = _initial("f", n, seed)
            data = _initial("u", n, seed + 1)
            pc = trimesh.PointCloud(vertices=V, colors=data.copy())
            cont["obj"] = pc
            root = pc.colors
        elif ctxn == "texture_uv":
            V = _initial("f", max(n, 4), seed)
            F = np.array([[0, 1, 2], [0, 2, 3], [0, 3, 1], [1, 3, 2]], dtype=np.int64)
            data = np.round(np.random.RandomState(seed % (2**32)).uniform(0, 1, (len(V), 2)), 3)
            mesh = trimesh.Trimesh(vertices=V, faces=F, process=False)
            mesh.visual = trimesh.visual.TextureVisuals(uv=data.copy())
            cont["obj"] = mesh
            root = mesh.visual.uv
        elif ctxn == "pc_vertices":
            data = _initial("f", n, seed)
            pc = trimesh.PointCloud(vertices=data.copy())
            cont["obj"] = pc
            root = pc.vertices
        elif ctxn == "path_vertices":
            from trimesh.path.entities import Line

            data = _initial("f", max(n, 3), seed)
            path = trimesh.path.Path3D(entities=[Line([0, 1, 2]), Line([2, 0])], vertices=data.copy(), process=False)
            cont["obj"] = path
            root = path.vertices
        else:
            raise HarnessError(ctxn)
        return cont, root, np.array(data, copy=True)

    def _container_hash(self, cont):
        k = cont["kind"]
        if k in ("scene_mesh_vertices", "scene_spare_geometry"):
            return cont["scene"].__hash__()
        if k in ("visual_face_colors", "visual_vertex_colors", "pc_colors", "texture_uv"):
            return cont["obj"].visual.__hash__()
        return cont["obj"].__hash__()

    def _fresh_container_hash(self, cont):
        import trimesh

        k = cont["kind"]
        o = cont["obj"]
        if k in ("mesh_vertices", "mesh_faces"):
            return trimesh.Trimesh(vertices=np.array(o.vertices.tolist()), faces=np.array(o.faces.tolist(), dtype=np.int64), process=False).__hash__()
        if k == "visual_face_colors":
            m = trimesh.Trimesh(vertices=np.array(o.vertices.tolist()), faces=np.array(o.faces.tolist(), dtype=np.int64), face_colors=np.array(o.visual.face_colors.tolist(), dtype=np.uint8), process=False)
            return m.visual.__hash__()
        if k == "visual_vertex_colors":
            m = trimesh.Trimesh(vertices=np.array(o.vertices.tolist()), faces=np.array(o.faces.tolist(), dtype=np.int64), vertex_colors=np.array(o.visual.vertex_colors.tolist(), dtype=np.uint8), process=False)
            return m.visual.__hash__()
        if k == "pc_colors":
            return trimesh.PointCloud(vertices=np.array(o.vertices.tolist()), colors=np.array(o.colors.tolist(), dtype=np.uint8)).visual.__hash__()
        if k == "texture_uv":
            m = trimesh.Trimesh(vertices=np.array(o.vertices.tolist()), faces=np.array(o.faces.tolist(), dtype=np.int64), process=False)
            m.visual = trimesh.visual.TextureVisuals(uv=np.array(o.visual.uv.tolist()))
            return m.visual.__hash__()
        if k == "pc_vertices":
            return trimesh.PointCloud(vertices=np.array(o.vertices.tolist())).__hash__()
        if k == "path_vertices":
            from trimesh.path.entities import Line

            return trimesh.path.Path3D(entities=[Line([0, 1, 2]), Line([2, 0])], vertices=np.array(o.vertices.tolist()), process=False).__hash__()
        if k == "scene_spare_geometry":
            sc = trimesh.Scene()
            g1 = cont["scene"].geometry["g1"]
            sc.add_geometry(trimesh.Trimesh(vertices=np.array(g1.vertices.tolist()), faces=np.array(g1.faces.tolist(), dtype=np.int64), process=False), node_name="n1", geom_name="g1")
            sc.geometry["g0"] = trimesh.Trimesh(vertices=np.array(o.vertices.tolist()), faces=np.array(o.faces.tolist(), dtype=np.int64), process=False)
            return sc.__hash__()
        if k == "scene_mesh_vertices":
            sc = trimesh.Scene()
            for name, node in (("g0", "n0"), ("g1", "n1")):
                g = cont["scene"].geometry[name]
                sc.add_geometry(trimesh.Trimesh(vertices=np.array(g.vertices.tolist()), faces=np.array(g.faces.tolist(), dtype=np.int64), process=False), node_name=node, geom_name=name)
            return sc.__hash__()
        return None

    # ------------------------------------------------------------------ execution
    def execute(self, program, ctx):
        from trimesh.caching import TrackedArray, hash_fast

        cfg = program["config"]
        if cfg["context"] == "store_members":
            return self._execute_store(program, ctx)
        cont, root, data = self._build(cfg, program.get("seed", 0))
        if not isinstance(root, TrackedArray):
            ctx.fail("type", "root-not-tracked", f"{cfg['context']}: {type(root).__name__}")
        hs = [H(root, data, True, None, "root")]
        st = {"cont": cont, "root": 0, "hash_fast": hash_fast, "TrackedArray": TrackedArray, "cfg": cfg}
        self._mirror_check(hs, ctx)
        if cont["obj"] is not None or cfg.get("prehash"):
            # building a container may already have hashed the array: start from a known (hashed) state
            self._hash_read(0, hs, st, ctx, "dunder")
        for step, op in enumerate(program["ops"]):
            ctx.step = step
            seed_lib_rng(op)
            try:
                out = self._do(op, hs, st, ctx)
            except Inapplicable:
                ctx.count("skip:inapplicable")
                continue
            ctx.count("op:" + op["op"])
            ctx.steps_sim += 1
            ctx.event(step, op["op"], op.get("route") or op.get("kind"), out)
            self._mirror_check(hs, ctx)
        ctx.step = "final"
        for i, h in enumerate(hs):
            if h.tracked:
                self._hash_read(i, hs, st, ctx, "dunder")
        if st["cont"]["obj"] is not None:
            self._container_check(hs, st, ctx)
        ctx.event("final", len(hs))

    def _mirror_check(self, hs, ctx):
        for i, h in enumerate(hs):
            a, m = np.asarray(h.arr), h.mir
            if a.shape != m.shape or a.dtype != m.dtype or a.tobytes() != m.tobytes():
                raise HarnessError(f"mirror of handle {i} ({h.how}) diverged: {a.tolist()} vs {m.tolist()}")

    def _snap(self, hs):
        return [h.mir.tobytes() for h in hs]

    def _after_write(self, hs, before, writer, route):
        for i, h in enumerate(hs):
            if h.tracked and h.mir.tobytes() != before[i]:
                h.pending.append((writer, route, hs[writer].tracked))

    def _do(self, op, hs, st, ctx):
        k = op["op"]
        hi = op.get("h", 0) % len(hs)
        h = hs[hi]
        TA = st["TrackedArray"]
        if k in ("derive_view", "derive_copy"):
            if len(hs) >= 5:
                raise Inapplicable()
            kind = op["kind"]
            if not h.tracked and kind == "view_tracked":
                new = h.arr.view(TA)
                mir = h.mir.view()
            else:
                new = _derive(kind, h.arr, op, TA)
                mir = _derive(kind, h.mir, op, None)
            if np.shares_memory(new, h.arr) != np.shares_memory(mir, h.mir):
                raise HarnessError(f"derive {kind}: view/copy classification differs between array and mirror")
            tracked = isinstance(new, TA)
            if h.tracked and not tracked and kind in ("slice_rows", "slice_step", "col", "row", "T", "reshape_flat", "ravel", "iter_row") and np.shares_memory(new, h.arr):
                # what the array itself hands out when it is sliced, indexed or iterated is a view OF IT: it has to know about
                # writes through it, which it only can if the view is tracked (an explicit .view(np.ndarray) is another matter)
                ctx.fail("hash", "own-view-not-tracked", f"{kind} of a tracked array returned a plain {type(new).__name__}: writes through it cannot reach the hash")
            hs.append(H(new, mir, tracked, hi, kind))
            if h.tracked and tracked and kind in MARKS_SOURCE:
                h.m_dirty = True
            ctx.count("derive:" + kind)
            return f"tracked={tracked} shares={bool(np.shares_memory(mir, hs[0].mir))}"
        if k in ("write_tracked", "write_untracked"):
            route = op["route"]
            before = self._snap(hs)
            exc_a = exc_m = None
            try:
                _write(route, h.mir, h.mir.copy(), op)
            except Inapplicable:
                raise
            except Exception as e:
                exc_m = type(e).__name__
            try:
                # the mirror was written first, so index/mask arguments derived from it are taken from a snapshot
                _write(route, h.arr, np.frombuffer(before[hi], dtype=h.mir.dtype).reshape(h.mir.shape), op)
            except Inapplicable:
                raise HarnessError("route inapplicable on array but not on mirror")
            except Exception as e:
                exc_a = type(e).__name__
            if exc_a != exc_m:
                raise HarnessError(f"route {route}: array raised {exc_a}, mirror raised {exc_m}")
            if exc_a:
                ctx.count("exc:" + exc_a)
            self._after_write(hs, before, hi, route)
            if h.tracked and route in TRACKED_ROUTES and (exc_a is None or route in PARTIAL_FAIL):
                # (a write that failed half way went through the array's own method all the same)
                h.m_dirty = True
            ctx.count(("fault:" if route in UNTRACKED_ROUTES or not h.tracked else "route:") + route)
            if not h.tracked:
                ctx.count("fault:write_via_plain_view")
            return exc_a or "ok"
        if k == "hash":
            if not h.tracked:
                raise Inapplicable()
            return self._hash_read(hi, hs, st, ctx, op.get("via", "dunder"))
        if k == "hash_all":
            for i, x in enumerate(hs):
                if x.tracked:
                    self._hash_read(i, hs, st, ctx, "dunder")
            return "ok"
        if k == "container_hash":
            return self._container_check(hs, st, ctx)
        if k == "readonly":
            kind = op["kind"]
            x = h.arr
            if kind == "sum":
                x.sum()
            elif kind == "compare":
                (x > 2).any()
            elif kind == "tobytes":
                x.tobytes()
            elif kind == "np_sort":
                np.sort(x, axis=0)
            elif kind == "min":
                x.min() if x.size else None
            elif kind == "tolist":
                x.tolist()
            elif kind == "len":
                len(x)
            elif kind == "dot":
                (x.reshape(-1) * 1).sum()
            elif kind == "mean":
                x.mean() if x.size else None
            elif kind == "argsort":
                x.argsort(axis=0)
            elif kind == "repr":
                repr(x)
            return kind
        if k == "setflags":
            # only the root's flag is toggled, and only when it owns its data (else numpy refuses write=True)
            r = hs[st["root"]]
            if r.how == "reassign_same" or any(x.how == "reassign_same" for x in hs):
                raise Inapplicable()
            r.arr.setflags(write=op["write"])
            r.mir.setflags(write=op["write"])
            r.m_dirty = True
            return f"write={op['write']}"
        if k == "reassign":
            cont = st["cont"]
            kind = cont["kind"]
            if kind not in ("mesh_vertices", "mesh_faces", "pc_vertices", "path_vertices", "scene_mesh_vertices", "scene_spare_geometry"):
                raise Inapplicable()
            r = hs[st["root"]]
            attr = "faces" if kind == "mesh_faces" else "vertices"
            if op.get("same_object"):
                setattr(cont["obj"], attr, r.arr)
                new_arr = getattr(cont["obj"], attr)
                if new_arr is not r.arr and kind != "path_vertices" and isinstance(new_arr, TA) and np.shares_memory(new_arr, r.arr):
                    # The container was handed back the very array object it had given out and now holds ANOTHER tracked object over
                    # the same buffer. The caller still holds the one it was given: writes through it are not writes through "some
                    # other array": the container hash has to follow them. The handle stays the root; the container is judged by
                    # its hash against a freshly built one. (A path re-wraps on every assignment: the recorded alias class.)
                    ctx.count("probe:setter-rewrapped-its-own-array")
                    return "same-rewrapped"
                if new_arr is not r.arr:
                    # the setter may re-wrap; treat as a new root sharing or not sharing memory
                    shares = np.shares_memory(new_arr, r.arr)
                    mir = r.mir if shares else r.mir.copy()
                    hs.append(H(new_arr, mir.view() if shares else mir, isinstance(new_arr, TA), st["root"], "reassign_same"))
                    st["root"] = len(hs) - 1
                return "same"
            if len(hs) >= 6:
                raise Inapplicable()
            new = np.array(r.mir, copy=True)
            new.setflags(write=True)
            new.reshape(-1)[0] = _val(new, op.get("v", 3))
            if op.get("prehashed"):
                # an already tracked, already hashed array object (taken from another mesh, or held and restored)
                from trimesh.caching import tracked_array

                t = tracked_array(new.copy())
                t.__hash__()
                setattr(cont["obj"], attr, t)
            else:
                setattr(cont["obj"], attr, new.copy())
            new_arr = getattr(cont["obj"], attr)
            hs.append(H(new_arr, new, isinstance(new_arr, TA), None, "reassign"))
            if op.get("prehashed") or cont["obj"] is not None:
                # known state: the array object has been hashed (by us, or by the setter's cache bookkeeping)
                self._hash_read(len(hs) - 1, hs, st, ctx, "dunder")
            st["root"] = len(hs) - 1
            return "new"
        raise Inapplicable()

    def _hash_read(self, hi, hs, st, ctx, via):
        h = hs[hi]
        hash_fast = st["hash_fast"]
        cur = h.mir.tobytes()
        want = hash_fast(cur)
        if via == "builtin":
            got, want_cmp = hash(h.arr), _builtin_hash(want)
        else:
            got, want_cmp = h.arr.__hash__(), want
        ctx.count("check:hash")
        fresh_since = h.m_dirty
        relation = sorted({("self" if w == hi else ("tracked_alias" if wt else "plain_alias")) + ":" + r for (w, r, wt) in h.pending})
        ok = got == want_cmp
        ctx.reach(st["cfg"]["context"], ",".join(relation[:3]) or "none", "dirty" if fresh_since else "clean", "ok" if ok else "stale")
        if not ok:
            if h.m_dirty:
                ctx.fail("hash", "stale-after-tracked-event", f"handle {hi} ({h.how}) pending={relation}: hash {got} != hash_fast(bytes) {want_cmp}")
            if h.last is None or not h.pending:
                ctx.fail("hash", "stale-without-write", f"handle {hi} ({h.how}): hash {got} != {want_cmp} with no byte-changing write recorded")
            stale = hash_fast(h.last)
            if (_builtin_hash(stale) if via == "builtin" else stale) != got:
                ctx.fail("hash", "neither-current-nor-memoised", f"handle {hi}: got {got}")
            for (w, route, wt) in h.pending:
                if w == hi:
                    if route not in UNTRACKED_ROUTES:
                        ctx.fail("hash", "stale-after-" + route, f"handle {hi} written through itself by {route}")
                    ctx.finding("C02-route-" + route, f"hash stale after {route}")
                else:
                    ctx.finding("C02-alias-tracked" if wt else "C02-alias-plain", f"write by {route} through handle {w} ({hs[w].how})")
            # re-synchronise through the public API: a tracked no-op write makes the array recompute
            wr = h.arr.flags.writeable
            if not wr:
                h.arr.setflags(write=True)
            h.arr[...] = h.mir
            if not wr:
                h.arr.setflags(write=False)
            if h.arr.__hash__() != want:
                ctx.fail("hash", "stale-after-resync", f"handle {hi}")
            ctx.count("resync")
        h.last = cur
        h.pending = []
        h.m_dirty = False
        return "ok" if ok else "finding"

    def _container_check(self, hs, st, ctx):
        cont = st["cont"]
        if cont["obj"] is None:
            raise Inapplicable()
        r = hs[st["root"]]
        if r.tracked and self._hash_read(st["root"], hs, st, ctx, "dunder") != "ok":
            ctx.count("skip:container-after-finding")
        got = self._container_hash(cont)
        want = self._fresh_container_hash(cont)
        ctx.count("check:container_hash")
        if got != want:
            ctx.fail("container", cont["kind"], f"container hash {got} != freshly built equal container {want}")
        # reading the container hash hashed the root again
        r.last, r.pending, r.m_dirty = r.mir.tobytes(), [], False
        # changed bytes => changed container hash; same bytes => same container hash (over this run's history)
        seen = st.setdefault("seen", {})
        key = (r.mir.shape, r.mir.tobytes())
        for k2, h2 in seen.items():
            if (k2 == key) != (h2 == got):
                ctx.fail("container", cont["kind"] + ("-hash-changed-without-byte-change" if k2 == key else "-hash-blind-to-byte-change"), f"container hash {got} vs earlier {h2}")
        seen[key] = got
        # consequence: a derived value keyed on the hash follows the bytes
        if cont["kind"] in ("mesh_vertices", "pc_vertices", "scene_mesh_vertices", "scene_spare_geometry") and np.isfinite(r.mir).all():
            b = cont["obj"].bounds
            # a mesh reports the bounds of the vertices its faces reference (always 0..3 here)
            ref = r.mir if cont["kind"] == "pc_vertices" else r.mir[:4]
            wantb = np.array([ref.min(axis=0), ref.max(axis=0)])
            ctx.count("check:bounds")
            if b is None or np.abs(np.asarray(b) - wantb).max() > 1e-12 * max(1.0, np.abs(wantb).max()):
                ctx.fail("consequence", "bounds", f"bounds {np.asarray(b).tolist()} != {wantb.tolist()}")
        return "ok"

    # ------------------------------------------------------------------ shrinking
    def simplify_program(self, program):
        out = []
        cfg = program["config"]
        for c in ("bare_f", "mesh_vertices"):
            if cfg["context"] != c:
                p = dict(program)
                p["config"] = dict(cfg, context=c)
                out.append(p)
        if cfg["n"] > 2:
            p = dict(program)
            p["config"] = dict(cfg, n=2)
            out.append(p)
        return out

    def simplify_op(self, op):
        out = []
        if op.get("h", 0) != 0:
            out.append(dict(op, h=0))
        if op["op"] == "hash" and op.get("via") == "builtin":
            out.append(dict(op, via="dunder"))
        return out

    def finding_programs(self, known):
        progs = []
        base_cfg = {"context": "mesh_vertices", "n": 4, "pool": "mixed", "plain_views": True}
        for r in UNTRACKED_ROUTES:
            fid = "C02-route-" + r
            progs.append((fid, {"config": base_cfg, "seed": 1, "ops": [{"op": "hash", "h": 0, "rs": 1}, {"op": "write_untracked", "route": r, "h": 0, "v": 9, "i": 1, "rs": 2}, {"op": "container_hash", "rs": 3}]}))
        progs.append(("C02-alias-plain", {"config": base_cfg, "seed": 1, "ops": [{"op": "derive_view", "kind": "view_ndarray", "h": 0, "rs": 1}, {"op": "hash", "h": 0, "rs": 1}, {"op": "write_tracked", "route": "setitem_index", "idx": [0, 0], "h": 1, "v": 9, "rs": 2}, {"op": "hash", "h": 0, "rs": 3}]}))
        progs.append(("C02-alias-tracked", {"config": base_cfg, "seed": 1, "ops": [{"op": "derive_view", "kind": "slice_rows", "a": 0, "b": 3, "h": 0, "rs": 1}, {"op": "hash", "h": 0, "rs": 1}, {"op": "write_tracked", "route": "setitem_index", "idx": [0, 0], "h": 1, "v": 9, "rs": 2}, {"op": "hash", "h": 0, "rs": 3}]}))
        return progs


def _mut_setitem():
    from trimesh.caching import TrackedArray
    orig = TrackedArray.__setitem__
    TrackedArray.__setitem__ = lambda self, *a, **k: np.ndarray.__setitem__(self, *a, **k)
    return lambda: setattr(TrackedArray, "__setitem__", orig)


def _mut_finalize():
    from trimesh.caching import TrackedArray
    orig = TrackedArray.__array_finalize__

    def fin(self, obj):
        self._dirty_hash = True

    TrackedArray.__array_finalize__ = fin
    return lambda: setattr(TrackedArray, "__array_finalize__", orig)


def _mut_sort():
    from trimesh.caching import TrackedArray
    orig = TrackedArray.sort
    TrackedArray.sort = lambda self, *a, **k: np.ndarray.sort(self, *a, **k)
    return lambda: setattr(TrackedArray, "sort", orig)


def _mut_datastore():
    from trimesh import caching
    orig = caching.DataStore.__hash__

    def h(self):
        return caching.hash_fast(np.array([hash(v) for k, v in self.data.items() if k != "faces" and v is not None and (not hasattr(v, "__len__") or len(v) > 0)], dtype=np.int64).tobytes())

    caching.DataStore.__hash__ = h
    return lambda: setattr(caching.DataStore, "__hash__", orig)


def _mut_ixor():
    from trimesh.caching import TrackedArray
    orig = TrackedArray.__ixor__
    TrackedArray.__ixor__ = lambda self, *a, **k: np.ndarray.__ixor__(self, *a, **k)
    return lambda: setattr(TrackedArray, "__ixor__", orig)


C02.MUTANTS = {"setitem-no-dirty-flag": _mut_setitem, "finalize-does-not-mark-source": _mut_finalize, "sort-no-dirty-flag": _mut_sort, "datastore-hash-skips-faces": _mut_datastore, "ixor-no-dirty-flag": _mut_ixor}

WORLD = C02()
