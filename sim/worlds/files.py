"""
The storage world shared by C08 (fault-free arm) and C20 (fault-injecting arm):
seeded geometry -> exporter -> simulated storage (name -> bytes, incl. side files) -> loader.
"""
import io
import json

import numpy as np

from . import matrices as mx
from . import meshes

# kind -> formats it can be exported to
FORMATS = {
    "mesh": ["stl", "stl_ascii", "ply", "ply_ascii", "off", "obj", "obj_mtl", "glb", "gltf", "3mf", "dae", "dict", "dict64", "zip_stl", "zip_ply", "targz_obj", "zip_obj_mtl", "tarbz2_ply", "bz2_stl"],
    "scene": ["glb", "gltf", "3mf", "dict", "zip_glb", "obj", "stl", "ply"],
    "points": ["ply", "xyz", "glb"],
    "path2d": ["dxf", "svg", "dict"],
    "path3d": ["dict", "glb", "ply"],
    "voxel": ["binvox"],
}
ALL_PAIRS = [(k, f) for k, fs in FORMATS.items() for f in fs]
FLOAT32 = {"stl", "ply", "glb", "gltf", "zip_stl", "zip_ply", "zip_glb", "binvox"}
EXACT = {"dict", "dict64"}
# scene exporters that write one flattened mesh (or one object per instance) in world coordinates: the instance structure is not stored
FLATTENS = {"obj", "stl", "ply"}


class SimFile(io.BytesIO):
    """In-memory file with a name; optionally faulty (EIO on the n-th call, early EOF, closed under the reader)."""

    def __init__(self, data, name=None, fault=None):
        super().__init__(data)
        if name is not None:
            self.name = name
        self._fault = fault or {}
        self._calls = 0
        self.fired = 0

    def _tick(self, what):
        self._calls += 1
        f = self._fault
        if not f:
            return None
        if f.get("kind") == "eio" and self._calls >= f["n"] and what in f.get("on", ("read", "seek", "readline")):
            self.fired += 1
            raise OSError(5, "simulated I/O error")
        if f.get("kind") == "close" and self._calls >= f["n"] and not self.closed:
            self.fired += 1
            super().close()
        if f.get("kind") == "eof" and self._calls >= f["n"] and what.startswith("read"):
            self.fired += 1
            return b""
        return None

    def read(self, *a):
        r = self._tick("read")
        return r if r is not None else super().read(*a)

    def readline(self, *a):
        r = self._tick("readline")
        return r if r is not None else super().readline(*a)

    def seek(self, *a):
        self._tick("seek")
        return super().seek(*a)


# ----------------------------------------------------------------------------- geometry generation
def random_geometry_recipe(rng, kind):
    r = {"kind": kind, "salt": rng.randrange(2**31)}
    if kind == "mesh":
        r["mesh"] = meshes.random_recipe(rng, bases=["tetra", "box", "octa", "icosa", "icosa1", "prism5", "torus", "open_box", "two_boxes"], variants=["plain"])
        r["shape"] = rng.choice(["normal", "normal", "normal", "single_face", "empty", "far", "tiny", "negative"])
        u = rng.random()
        if u < 0.008:
            # more than 65535 vertices with many faces / with fewer than 65535 faces (an unmerged soup)
            r["mesh"]["base"], r["shape"] = "grid260", ("large_index" if u < 0.004 else "large_soup")
        elif u < 0.012:
            # between 32768 and 65535 vertices: indices that fit unsigned but not signed 16-bit integers
            r["mesh"]["base"], r["shape"] = "grid190", "large_index"
        r["colors"] = rng.choice([None, None, "vertex", "face", "texture", "vertex_flat"])
        r["attributes"] = rng.random() < 0.3
        # a name is free text: writers put it in headers, where it may look like a keyword of the format
        r["name"] = rng.choice([None, None, None, "part", "my vertex model", "endsolid x", "normal one", "end_header", "facet loop", "o g v f"])
    elif kind == "scene":
        r["parts"] = [meshes.random_recipe(rng, bases=["tetra", "box", "octa", "prism5"], variants=["plain"]) for _ in range(rng.randint(1, 3))]
        r["instances"] = [[rng.randrange(3), rng.randrange(4), rng.choice(["identity", "translation", "rigid", "similarity", "scale_near_one"])] for _ in range(rng.randint(1, 4))]
        r["colors"] = rng.choice([None, "vertex"])
        r["extras"] = rng.choice([[], [], [], ["cloud"], ["empty"], ["cloud", "empty"]])
        r["naming"] = rng.choice([None, None, "same", "camera"])
        r["base"] = rng.choice(["world", "world", "root"])
    elif kind == "points":
        r["n"] = rng.choice([1, 3, 17])
        r["colors"] = rng.choice([False, True, True, "binary"])
    elif kind in ("path2d", "path3d"):
        r["shape"] = rng.choice(["square", "nested", "polyline_open", "circle", "rounded", "dshape", "closed_circle", "reversed_arcs", "lens", "square_unmerged", "triangle_unmerged"]) if kind == "path2d" else rng.choice(["square", "polyline_open", "two_segments", "three_pieces"])
    elif kind == "voxel":
        r["n"] = rng.choice([2, 3, 5, 9])
        r["fill"] = rng.choice([0.2, 0.5, 0.9, 0.01, 0.995])
        r["pitch"] = rng.choice([1.0, 0.25, 0.1, 0.0123456789, 1.0 / 3.0, 7.7])
        if rng.random() < 0.35:
            r["dims"] = rng.choice([[8, 8, 8], [10, 10, 10], [11, 11, 11], [16, 16, 16]])  # (binvox holds one scale: cubic grids only)
            r["runs"] = [rng.choice([1, 2, 7, 100, 254, 255, 255, 256, 300, 509, 510, 510, 511, 765, 766, 1020]) for _ in range(rng.randint(2, 8))]
        # grid origin: simple values, or coordinates that need all the digits of a double
        r["origin"] = [0.5, -1.0, 2.0] if rng.random() < 0.4 else [round(rng.uniform(-2000.0, 2000.0), rng.choice([3, 6, 9, 12])) for _ in range(3)]
    return r


def build_geometry(r, fmt=None):
    import trimesh

    kind = r["kind"]
    if fmt in ("obj_mtl", "zip_obj_mtl") and kind == "mesh" and r.get("shape") not in ("empty", "large_index", "large_soup"):
        r = dict(r, colors="texture")
    rs = np.random.RandomState(r["salt"] % (2**32))
    if kind == "mesh":
        V, F = meshes.build(r["mesh"])
        shape = r.get("shape", "normal")
        if shape == "large_soup":
            V = V[F[:22000]].reshape(-1, 3)
            F = np.arange(len(V)).reshape(-1, 3)
        if shape == "single_face":
            V, F = V[F[0]], np.array([[0, 1, 2]])
        elif shape == "empty":
            V, F = np.zeros((0, 3)), np.zeros((0, 3), dtype=np.int64)
        elif shape == "far":
            V = V + np.array([1.0e5, -2.0e5, 3.0e4])
        elif shape == "tiny":
            V = V * 1e-4
        elif shape == "negative":
            V = -np.abs(V) - 1.0
        m = trimesh.Trimesh(vertices=V, faces=F, process=False)
        if r.get("colors") == "vertex_flat" and len(V):
            # painted one colour all over
            m.visual.vertex_colors = np.tile(np.array([rs.randint(0, 256), rs.randint(0, 256), rs.randint(0, 256), 255], dtype=np.uint8), (len(V), 1))
        elif r.get("colors") == "vertex" and len(V):
            m.visual.vertex_colors = np.column_stack([rs.randint(0, 256, (len(V), 3)), np.full(len(V), 255)]).astype(np.uint8)
        elif r.get("colors") == "face" and len(F):
            m.visual.face_colors = np.column_stack([rs.randint(0, 256, (len(F), 3)), np.full(len(F), 255)]).astype(np.uint8)
        elif r.get("colors") == "texture" and len(V) and len(V) < 5000:
            from PIL import Image

            img = Image.fromarray(rs.randint(0, 256, (4, 4, 3), dtype=np.uint8))
            uv = np.round(rs.uniform(0.05, 0.95, (len(V), 2)), 4)
            m.visual = trimesh.visual.TextureVisuals(uv=uv, material=trimesh.visual.material.SimpleMaterial(image=img))
        if r.get("name"):
            m.metadata["name"] = r["name"]
        if r.get("attributes") and len(F) and len(V) < 5000:
            m.face_attributes["quality"] = np.arange(len(F), dtype=np.float32) * 0.5
            m.vertex_attributes["weight"] = np.arange(len(V), dtype=np.float32) * 0.25
        return m
    if kind == "scene":
        import random

        rr = random.Random(r["salt"])
        sc = trimesh.Scene(base_frame=r.get("base", "world"))
        geoms = []
        for i, part in enumerate(r["parts"]):
            V, F = meshes.build(part)
            g = trimesh.Trimesh(vertices=V, faces=F, process=False)
            if r.get("colors") == "vertex":
                g.visual.vertex_colors = np.column_stack([rs.randint(0, 256, (len(V), 3)), np.full(len(V), 255)]).astype(np.uint8)
            geoms.append(g)
        nodes = [r.get("base", "world")]
        used = set()
        extras = list(r.get("extras") or [])
        base = (fmt or "").split("_", 1)[1] if (fmt or "").startswith(("zip_", "targz_", "tarbz2_", "bz2_")) else (fmt or "")
        if "cloud" in extras and base in ("glb", "gltf", "obj", "stl", "ply", ""):
            # a point cloud ahead of the meshes (formats that cannot hold points at all are not asked to)
            sc.add_geometry(trimesh.PointCloud(np.round(rs.uniform(-1, 1, (5, 3)), 4)), node_name="cloud_node", geom_name="cloud", transform=mx.hom(None, [4.0, 0.5, -1.0]))
        for j, (gi, pi, cls) in enumerate(r["instances"]):
            gi = gi % len(geoms)
            parent = nodes[pi % len(nodes)]
            # (scale_near_one: a placement 8 parts per million larger than life - above what the graph repairs to rigid, below 1e-5)
            M = mx.make(rr, cls) if cls != "scale_near_one" else np.diag([1.000008, 1.000008, 1.000008, 1.0])
            node = f"node{j}"
            if r.get("naming") == "same" and gi not in used:
                node = f"geom{gi}"  # a node named like the geometry it carries (what loaders of other formats produce)
            elif r.get("naming") == "camera" and j == 0:
                node = "camera_mount"  # a name that merely starts like the scene's camera node
            if gi not in used:
                sc.add_geometry(geoms[gi], node_name=node, geom_name=f"geom{gi}", parent_node_name=parent if parent != r.get("base", "world") else None, transform=M)
                used.add(gi)
            else:
                sc.graph.update(frame_to=node, frame_from=parent, matrix=M, geometry=f"geom{gi}")
            nodes.append(node)
            if j == 0 and "empty" in extras:
                # a geometry with vertices but not a single face, in the middle of the geometry order
                sc.add_geometry(trimesh.Trimesh(vertices=np.round(rs.uniform(-1, 1, (3, 3)), 4), faces=np.zeros((0, 3), dtype=np.int64), process=False), node_name="empty_node", geom_name="empty", transform=mx.hom(None, [0.0, 6.0, 0.0]))
        return sc
    if kind == "points":
        V = np.round(rs.uniform(-3, 3, (r["n"], 3)), 5)
        if r.get("colors") == "binary":
            # every channel 0 or 1 (alpha too): small integers a reader may take for something else
            cols = rs.randint(0, 2, (len(V), 4)).astype(np.uint8)
            cols[0] = [1, 0, 1, 1]
            return trimesh.PointCloud(vertices=V, colors=cols)
        if r.get("colors"):
            return trimesh.PointCloud(vertices=V, colors=np.column_stack([rs.randint(0, 256, (len(V), 3)), np.full(len(V), 255)]).astype(np.uint8))
        return trimesh.PointCloud(vertices=V)
    if kind in ("path2d", "path3d"):
        from trimesh.path.entities import Arc, Line

        shape = r["shape"]
        j = rs.uniform(-0.05, 0.05, (4, 2))
        sq = np.array([[0, 0], [2, 0], [2, 1.5], [0, 1.5]], dtype=float) + j
        if kind == "path3d":
            V3 = np.column_stack([sq, rs.uniform(-0.5, 0.5, 4)])
            if shape == "two_segments":
                # entities that do not touch: the gaps between them are not segments
                ents = [Line([0, 1]), Line([2, 3])]
            elif shape == "three_pieces":
                V3 = np.vstack([V3, V3[:2] + [0.0, 0.0, 3.0]])
                ents = [Line([0, 1, 2]), Line([3, 0]), Line([4, 5])]
            else:
                ents = [Line([0, 1, 2, 3, 0])] if shape == "square" else [Line([0, 1, 2, 3])]
            return trimesh.path.Path3D(entities=ents, vertices=V3, process=False)
        if shape == "square":
            return trimesh.path.Path2D(entities=[Line([0, 1, 2, 3, 0])], vertices=sq, process=False)
        if shape == "polyline_open":
            return trimesh.path.Path2D(entities=[Line([0, 1, 2, 3])], vertices=sq, process=False)
        if shape == "square_unmerged":
            # closed by coordinates only: the last vertex is its own copy of the first (what process=False loading gives)
            return trimesh.path.Path2D(entities=[Line([0, 1, 2, 3, 4])], vertices=np.vstack([sq, sq[:1]]), process=False)
        if shape == "triangle_unmerged":
            return trimesh.path.Path2D(entities=[Line([0, 1, 2, 4]), Line([5, 6])], vertices=np.vstack([sq, sq[:1], sq[2:3] + [3.0, 0.0], sq[3:4] + [3.0, 0.5]]), process=False)
        if shape == "nested":
            inner = np.array([[0.5, 0.4], [1.4, 0.4], [1.4, 1.0], [0.5, 1.0]]) + rs.uniform(-0.03, 0.03, (4, 2))
            return trimesh.path.Path2D(entities=[Line([0, 1]), Line([1, 2, 3]), Line([3, 0]), Line([4, 5, 6, 7, 4])], vertices=np.vstack([sq, inner]), process=False)
        if shape == "circle":
            c, rad = rs.uniform(-1, 1, 2), 0.75
            P = c + rad * np.array([[1, 0], [0, 1], [-1, 0], [0, -1]], dtype=float)
            return trimesh.path.Path2D(entities=[Arc([0, 1, 2]), Arc([2, 3, 0])], vertices=P, process=False)
        if shape == "closed_circle":
            c, rad = rs.uniform(-1, 1, 2), 0.8
            ang = np.array([0.3, 2.3, 4.3])
            P = c + rad * np.column_stack([np.cos(ang), np.sin(ang)])
            return trimesh.path.Path2D(entities=[Arc([0, 1, 2], closed=True), Line([3, 4, 5, 6, 3])], vertices=np.vstack([P, sq + [4.0, 0.0]]), process=False)
        if shape in ("dshape", "lens", "reversed_arcs"):
            c, rad = rs.uniform(-1, 1, 2), 1.2
            if shape == "dshape":
                ang = np.array([-1.03, 0.585, 2.2])  # a 185 degree arc closed by its chord
                P = c + rad * np.column_stack([np.cos(ang), np.sin(ang)])
                return trimesh.path.Path2D(entities=[Arc([0, 1, 2]), Line([2, 0])], vertices=P, process=False)
            ang = np.array([0.2, 1.7, 3.3, 5.0])
            P = c + rad * np.column_stack([np.cos(ang), np.sin(ang)])
            ents = [Arc([0, 1, 2]), Arc([2, 3, 0])] if shape == "lens" else [Arc([2, 1, 0]), Arc([0, 3, 2])]
            return trimesh.path.Path2D(entities=ents, vertices=P, process=False)
        # rounded: a stadium = two lines + two half-circle arcs
        P = np.array([[0, 0], [2, 0], [2.5, 0.5], [2, 1], [0, 1], [-0.5, 0.5]], dtype=float)
        return trimesh.path.Path2D(entities=[Line([0, 1]), Arc([1, 2, 3]), Line([3, 4]), Arc([4, 5, 0])], vertices=P, process=False)
    if kind == "voxel" and r.get("runs"):
        # a grid laid out as explicit runs in the order binvox stores cells (x, z, y): lengths around the 255-per-byte limit of its run-length code
        nx, ny, nz = r["dims"]
        flat = np.zeros(nx * ny * nz, dtype=bool)
        pos, val = 0, bool(r["runs"][0] % 2)
        for length in r["runs"]:
            flat[pos : pos + length] = val
            pos += length
            val = not val
            if pos >= len(flat):
                break
        flat[0] = True
        dense = flat.reshape((nx, nz, ny)).transpose((0, 2, 1))
        T = np.eye(4) * r["pitch"]
        T[3, 3] = 1.0
        T[:3, 3] = r.get("origin", [0.5, -1.0, 2.0])
        return trimesh.voxel.VoxelGrid(np.ascontiguousarray(dense), transform=T)
    if kind == "voxel":
        n = r["n"]
        dense = rs.uniform(size=(n, n, n)) < r["fill"]
        dense[0, 0, 0] = True
        T = np.eye(4) * r["pitch"]
        T[3, 3] = 1.0
        T[:3, 3] = r.get("origin", [0.5, -1.0, 2.0])
        return trimesh.voxel.VoxelGrid(dense, transform=T)
    raise ValueError(kind)


# ----------------------------------------------------------------------------- canonical content
def _tris(m):
    V, F = np.asarray(m.vertices, dtype=np.float64), np.asarray(m.faces)
    return V[F] if len(F) else np.zeros((0, 3, 3))


def content(obj):
    """What a round trip must preserve, as plain arrays."""
    import trimesh

    if isinstance(obj, trimesh.Scene):
        inst = []
        for node in obj.graph.nodes_geometry:
            T, g = obj.graph[node]
            geom = obj.geometry[g]
            if isinstance(geom, trimesh.Trimesh) and len(geom.faces):
                inst.append(mx.apply(np.asarray(T), np.asarray(geom.vertices, dtype=float))[np.asarray(geom.faces)] if len(geom.faces) else np.zeros((0, 3, 3)))
        tris = np.vstack(inst) if inst else np.zeros((0, 3, 3))
        return {"kind": "scene", "n_instances": len(inst), "tris_sorted": _sort_tris(tris)}
    if isinstance(obj, trimesh.Trimesh):
        c = {"kind": "mesh", "tris": _tris(obj)}
        if obj.visual.kind == "vertex" and len(obj.faces):
            c["corner_colors"] = np.asarray(obj.visual.vertex_colors)[np.asarray(obj.faces)]
        if obj.visual.kind == "face":
            c["face_colors"] = np.asarray(obj.visual.face_colors)
        if obj.visual.kind == "texture" and getattr(obj.visual, "uv", None) is not None and len(obj.faces) and len(obj.visual.uv) == len(obj.vertices):
            c["corner_uv"] = np.asarray(obj.visual.uv, dtype=float)[np.asarray(obj.faces)]
        if "quality" in obj.face_attributes:
            c["face_quality"] = np.asarray(obj.face_attributes["quality"], dtype=float).reshape(-1)
        if "weight" in obj.vertex_attributes and len(obj.faces):
            c["corner_weight"] = np.asarray(obj.vertex_attributes["weight"], dtype=float).reshape(-1)[np.asarray(obj.faces)]
        return c
    if isinstance(obj, trimesh.PointCloud):
        c = {"kind": "points", "pts": np.asarray(obj.vertices, dtype=float)}
        cols = getattr(obj, "colors", None)
        if cols is not None and len(cols) == len(obj.vertices) and len(cols):
            c["colors"] = np.asarray(cols)
        return c
    if isinstance(obj, trimesh.path.path.Path):
        segs = [np.asarray(e.discrete(obj.vertices), dtype=float) for e in obj.entities]

        def ends(e, s_):
            # the two end points as an unordered pair (a format may store an arc by centre and angles, i.e. without direction);
            # a closed circle has no end points: its extent stands in for them
            if getattr(e, "closed", False) and type(e).__name__ == "Arc":
                info = e.center(obj.vertices)
                c_ = np.asarray(info.center, dtype=float)[: s_.shape[1]]
                return np.array([c_ - float(info.radius), c_ + float(info.radius)])
            pair = np.array([s_[0], s_[-1]])
            return pair[np.lexsort(pair.T[::-1])]

        # length and extent of the curves themselves (arcs analytically: how many chords the library draws an arc with is a
        # rounding-level decision of its discretiser, not something a file stores)
        measures = [_curve_measure(e, obj.vertices, s_) for e, s_ in zip(obj.entities, segs)]
        lo = np.min([m_[1] for m_ in measures], axis=0) if measures else np.zeros(0)
        hi = np.max([m_[2] for m_ in measures], axis=0) if measures else np.zeros(0)
        return {"kind": "path", "n_entities": len(obj.entities), "kinds": [type(e).__name__ for e in obj.entities], "ends": [ends(e, s_) for e, s_ in zip(obj.entities, segs)],
                "length": float(sum(m_[0] for m_ in measures)), "bounds": np.array([lo, hi], dtype=float)}
    if isinstance(obj, trimesh.voxel.VoxelGrid):
        pts = np.asarray(obj.points, dtype=float)
        return {"kind": "voxel", "shape": list(obj.shape), "filled": pts[np.lexsort(pts.T[::-1])] if len(pts) else pts}
    raise TypeError(type(obj))


def _sort_tris(T):
    T = np.asarray(T, dtype=float).reshape(-1, 3, 3)
    if len(T) == 0:
        return T
    c = np.round(T.mean(axis=1), 4)
    return T[np.lexsort((c[:, 2], c[:, 1], c[:, 0]))]


def normalise_loaded(loaded, want_kind):
    """A loader may wrap a single geometry in a Scene: unwrap it when the original was not a scene."""
    import trimesh

    if want_kind == "scene":
        return loaded if isinstance(loaded, trimesh.Scene) else trimesh.Scene(loaded)
    if isinstance(loaded, trimesh.Scene):
        geoms = list(loaded.geometry.values())
        if want_kind == "mesh":
            if len(geoms) == 0:
                return trimesh.Trimesh()
            if len(geoms) == 1 and len(loaded.graph.nodes_geometry) == 1 and np.allclose(loaded.graph[loaded.graph.nodes_geometry[0]][0], np.eye(4)):
                return geoms[0]
            return loaded.to_mesh()
        if len(geoms) == 1:
            return geoms[0]
        if len(geoms) == 0 and want_kind == "points":
            return trimesh.PointCloud(np.zeros((0, 3)))
    if isinstance(loaded, (list, tuple)) and len(loaded) == 1:
        return loaded[0]
    return loaded


# ----------------------------------------------------------------------------- export / load pipes
BY_NAME = {"stl": ("stl", {}), "stl_ascii": ("stl_ascii", {}), "ply": ("ply", {"encoding": "binary"}), "ply_ascii": ("ply", {"encoding": "ascii"}), "off": ("off", {}), "obj": ("obj", {}),
           "glb": ("glb", {}), "gltf": ("gltf", {}), "3mf": ("3mf", {}), "dae": ("dae", {}), "xyz": ("xyz", {}), "binvox": ("binvox", {}), "dxf": ("dxf", {}), "svg": ("svg", {})}
_OPT_KEYS = {"ply": ("vertex_normal", "include_attributes"), "ply_ascii": ("vertex_normal", "include_attributes"), "off": ("digits",), "glb": ("include_normals", "unitize_normals"),
             "gltf": ("include_normals", "merge_buffers", "embed_buffers"), "obj": ("digits", "include_normals", "include_color"), "xyz": ("delimiter",)}


def _curve_measure(e, V, discrete):
    """(length, lower corner, upper corner) of one entity; planar three-point arcs in closed form."""
    V = np.asarray(V, dtype=float)
    P = V[np.asarray(e.points)]
    if type(e).__name__ != "Arc" or P.shape != (3, 2):
        d = np.asarray(discrete, dtype=float)
        return float(np.linalg.norm(np.diff(d, axis=0), axis=1).sum()), d.min(axis=0), d.max(axis=0)
    (x0, y0), (x1, y1), (x2, y2) = P
    if getattr(e, "closed", False):
        # a full circle given by three points on it
        pass
    det = 2.0 * (x0 * (y1 - y2) + x1 * (y2 - y0) + x2 * (y0 - y1))
    cx = ((x0**2 + y0**2) * (y1 - y2) + (x1**2 + y1**2) * (y2 - y0) + (x2**2 + y2**2) * (y0 - y1)) / det
    cy = ((x0**2 + y0**2) * (x2 - x1) + (x1**2 + y1**2) * (x0 - x2) + (x2**2 + y2**2) * (x1 - x0)) / det
    r = float(np.hypot(x0 - cx, y0 - cy))
    if getattr(e, "closed", False):
        return 2.0 * np.pi * r, np.array([cx - r, cy - r]), np.array([cx + r, cy + r])
    a0, a1, a2 = (np.arctan2(y - cy, x - cx) for x, y in P)
    ccw = ((x1 - x0) * (y2 - y1) - (y1 - y0) * (x2 - x1)) > 0
    span = (a2 - a0) % (2 * np.pi) if ccw else (a0 - a2) % (2 * np.pi)
    pts = [P[0], P[2]]
    for k in range(4):
        ang = k * np.pi / 2
        off = (ang - a0) % (2 * np.pi) if ccw else (a0 - ang) % (2 * np.pi)
        if off <= span:
            pts.append([cx + r * np.cos(ang), cy + r * np.sin(ang)])
    pts = np.array(pts, dtype=float)
    return r * float(span), pts.min(axis=0), pts.max(axis=0)


def export_by_name(obj, fmt, opts, directory, older=None):
    """The other public way to export: `obj.export('/some/dir/model.ext')`. The writer creates the file (and its side files) itself.
    With `older`, another object was exported under the same name before: the directory already holds its files.
    -> (files found in the directory afterwards, main name, file type for the loader)"""
    import os

    import trimesh

    ext, kw = BY_NAME[fmt]
    kw = dict(kw)
    for k in _OPT_KEYS.get(fmt, ()):
        if (opts or {}).get(k) is not None:
            kw[k] = int(opts[k]) if k == "digits" else opts[k]
    target = os.path.join(directory, "model." + ext)
    wrap = (lambda o: trimesh.Scene(o)) if fmt == "glb" and isinstance(obj, trimesh.path.path.Path) else (lambda o: o)
    if older is not None:
        wrap(older).export(target, **kw)
    wrap(obj).export(target, **kw)
    files = {}
    for n in sorted(os.listdir(directory)):
        with open(os.path.join(directory, n), "rb") as f:
            files[n] = f.read()
    return files, "model." + ext, {"stl_ascii": "stl_ascii", "ply_ascii": "ply"}.get(fmt, ext)


def export_payload(obj, fmt, opts=None):
    """-> (files: {name: bytes}, main name, file_type for the loader)"""
    import trimesh

    opts = opts or {}
    if fmt in ("dict", "dict64"):
        if isinstance(obj, trimesh.path.path.Path):
            d = obj.to_dict() if fmt == "dict" else obj.export(file_type="dict")
        else:
            d = obj.export(file_type=fmt)
        return {"model." + fmt: json.dumps(d, default=lambda o: o.tolist() if hasattr(o, "tolist") else str(o)).encode()}, "model." + fmt, fmt
    if fmt.startswith("bz2_"):
        import bz2

        files, main, ft = export_payload(obj, fmt.split("_", 1)[1], opts)
        return {main + ".bz2": bz2.compress(files[main])}, main + ".bz2", "bz2"
    if fmt.startswith("zip_") or fmt.startswith("targz_") or fmt.startswith("tarbz2_"):
        inner = fmt.split("_", 1)[1]
        files, main, ft = export_payload(obj, inner, opts)
        buf = io.BytesIO()
        if fmt.startswith("zip_"):
            import zipfile

            with zipfile.ZipFile(buf, "w", zipfile.ZIP_DEFLATED) as z:
                for n, b in sorted(files.items()):
                    z.writestr(n, b)
            return {"archive.zip": buf.getvalue()}, "archive.zip", "zip"
        import tarfile

        bz = fmt.startswith("tarbz2_")
        with tarfile.open(fileobj=buf, mode="w:bz2" if bz else "w:gz") as t:
            for n, b in sorted(files.items()):
                info = tarfile.TarInfo(n)
                info.size = len(b)
                t.addfile(info, io.BytesIO(b))
        return ({"archive.tar.bz2": buf.getvalue()}, "archive.tar.bz2", "tar.bz2") if bz else ({"archive.tar.gz": buf.getvalue()}, "archive.tar.gz", "tar.gz")
    if fmt == "glb" and isinstance(obj, trimesh.path.path.Path):
        # a path is exported to glTF through a scene
        data = trimesh.Scene(obj).export(file_type="glb")
        return {"model.glb": data}, "model.glb", "glb"
    if fmt in ("ply", "ply_ascii"):
        kw = {k: v for k, v in opts.items() if k in ("vertex_normal", "include_attributes") and v is not None}
        data = obj.export(file_type="ply", encoding="ascii" if fmt == "ply_ascii" else "binary", **kw)
        return {"model.ply": data if isinstance(data, bytes) else data.encode()}, "model.ply", "ply"
    if fmt == "off" and opts.get("digits"):
        data = obj.export(file_type="off", digits=int(opts["digits"]))
        return {"model.off": data.encode() if isinstance(data, str) else data}, "model.off", "off"
    if fmt == "glb":
        kw = {k: v for k, v in opts.items() if k in ("include_normals", "unitize_normals") and v is not None}
        data = obj.export(file_type="glb", **kw)
        return {"model.glb": data}, "model.glb", "glb"
    if fmt == "gltf":
        kw = {k: v for k, v in opts.items() if k in ("include_normals", "merge_buffers", "embed_buffers") and v is not None}
        data = obj.export(file_type="gltf", **kw)
        return {k: (v if isinstance(v, bytes) else v.encode()) for k, v in data.items()}, "model.gltf", "gltf"
    if fmt == "obj_mtl":
        # OBJ with its material library and texture image as side files (served by a resolver / archive / directory)
        text, tex = obj.export(file_type="obj", return_texture=True, **{k: v for k, v in opts.items() if k in ("digits", "include_normals") and v is not None})
        files = {"model.obj": text.encode() if isinstance(text, str) else text}
        files.update({k: (v if isinstance(v, bytes) else v.encode()) for k, v in tex.items()})
        return files, "model.obj", "obj"
    if fmt == "obj":
        data = obj.export(file_type="obj", **{k: v for k, v in opts.items() if k in ("digits", "include_normals", "include_color") and v is not None})
        if isinstance(data, tuple):
            text, extra = data
            files = {"model.obj": text.encode() if isinstance(text, str) else text}
            files.update({k: (v if isinstance(v, bytes) else v.encode()) for k, v in extra.items()})
            return files, "model.obj", "obj"
        return {"model.obj": data.encode() if isinstance(data, str) else data}, "model.obj", "obj"
    if fmt == "xyz" and opts.get("delimiter"):
        data = obj.export(file_type="xyz", delimiter=opts["delimiter"])
    else:
        data = obj.export(file_type=fmt)
    if isinstance(data, str):
        data = data.encode("utf-8")
    if isinstance(data, dict):
        data = json.dumps(data).encode()
    ext = fmt
    return {"model." + ext: data}, "model." + ext, fmt


def load_payload(files, main, ft, route="load", transport="bytesio", scratch=None, fault=None, kwargs=None):
    """Load through one of the public entry points. Returns the loaded object."""
    import trimesh

    kwargs = dict(kwargs or {})
    if ft in ("dict", "dict64"):
        d = json.loads(files[main].decode())
        if route == "load_path" or "entities" in d:
            if kwargs.pop("dict_direct", False):
                # the exported dict handed straight back to the loaders
                return (trimesh.load_path(d) if route == "load_path" else trimesh.load(d)), None
            # the documented way back from the dict form of a path
            from trimesh.path.exchange.misc import dict_to_path

            return trimesh.load_path(dict_to_path(d)), None
        kwargs.pop("dict_direct", None)
        return (trimesh.load(d, **kwargs) if route == "load" else (trimesh.load_scene(d, **kwargs) if route == "load_scene" else trimesh.load_mesh(d, **kwargs))), None
    resolver = None
    if len(files) > 1:
        resolver = SimResolver({k: v for k, v in files.items()})
    if ft == "bz2" and transport == "bytesio":
        # a bare bz2 stream says nothing about what it holds: the loader takes the inner type from the name of the file object
        transport = "simfile"
    if transport == "path":
        import os

        for n, b in files.items():
            with open(os.path.join(scratch, n), "wb") as f:
                f.write(b)
        target = os.path.join(scratch, main)
        args = {"file_obj": target}
        resolver = None
    elif transport == "simfile":
        args = {"file_obj": SimFile(files[main], name=main, fault=fault), "file_type": ft}
    else:
        args = {"file_obj": io.BytesIO(files[main]), "file_type": ft}
    if resolver is not None:
        args["resolver"] = resolver
    fn = {"load": trimesh.load, "load_scene": trimesh.load_scene, "load_mesh": trimesh.load_mesh, "load_path": trimesh.load_path}[route]
    if route == "load_path":
        args.pop("resolver", None)
    out = fn(**args, **kwargs)
    return out, args.get("file_obj")


def make_resolver(files):
    return SimResolver(files)


class _ResolverBase:
    pass


def SimResolver(files):
    """A trimesh Resolver over the simulated storage (counts accesses)."""
    from trimesh import resolvers

    class _R(resolvers.Resolver):
        def __init__(self, store):
            self.store = dict(store)
            self.gets = 0
            self.misses = 0

        def get(self, name):
            self.gets += 1
            name = str(name).strip().lstrip("./")
            if name not in self.store:
                self.misses += 1
                raise ValueError(f"no such asset {name}")
            return self.store[name]

        def write(self, name, data):
            self.store[name] = data if isinstance(data, bytes) else str(data).encode()

        def namespaced(self, namespace):
            return self

        def keys(self):
            return list(self.store.keys())

        def __getitem__(self, key):
            return self.get(key)

        def __setitem__(self, key, value):
            self.write(key, value)

        def __contains__(self, key):
            return key in self.store

    return _R(files)


# ----------------------------------------------------------------------------- corpus payloads (files of the repository's own models/ directory)
_CORPUS_EXT = {
    "stl": "stl", "stl_ascii": "stl", "ply": "ply", "ply_ascii": "ply", "off": "off", "obj": "obj", "obj_mtl": "obj", "glb": "glb", "gltf": "gltf", "3mf": "3mf",
    "msh": "msh", "xaml": "xaml", "3dxml": "3dxml", "ctm": "ctm",
    "dae": "dae", "xyz": "xyz", "binvox": "binvox", "dxf": "dxf", "svg": "svg", "zip_stl": "zip", "zip_ply": "zip", "zip_glb": "zip", "zip_obj_mtl": "zip",
}
_CORPUS_CACHE = {}
CORPUS_MAX = 32 * 1024


def corpus(fmt):
    """Sorted [(name, path)] of small model files shipped with the tree under test whose type matches the pipe's format.
    They carry features trimesh's own exporters never write (interleaved buffer views, comments, negative indices, splines ...)."""
    import os

    ext = _CORPUS_EXT.get(fmt)
    if ext is None:
        return []
    if ext not in _CORPUS_CACHE:
        import trimesh

        root = os.path.join(os.path.dirname(os.path.dirname(os.path.abspath(trimesh.__file__))), "models")
        out = []
        for sub in ("", "2D", "emptyIO"):
            d = os.path.join(root, sub)
            if not os.path.isdir(d):
                continue
            for fn in sorted(os.listdir(d)):
                p = os.path.join(d, fn)
                if os.path.isfile(p) and fn.lower().endswith("." + ext) and os.path.getsize(p) <= CORPUS_MAX:
                    out.append((os.path.join(sub, fn) if sub else fn, p))
        _CORPUS_CACHE[ext] = sorted(out)
    return _CORPUS_CACHE[ext]


def corpus_payload(fmt, idx):
    """-> (files, main, file_type, name) for the idx-th corpus file of this format, with the side files it names, or None."""
    import os
    import re

    c = corpus(fmt)
    if not c:
        return None
    name, path = c[idx % len(c)]
    with open(path, "rb") as f:
        data = f.read()
    main = os.path.basename(name).replace(" ", "_")
    files = {main: data}
    d = os.path.dirname(path)
    for m in re.finditer(rb"[\w\-.]+\.(?:mtl|bin|png|jpg|jpeg)", data[:65536]):
        side = m.group().decode("ascii", "ignore")
        sp = os.path.join(d, side)
        if side not in files and os.path.isfile(sp) and os.path.getsize(sp) <= 4 * CORPUS_MAX:
            with open(sp, "rb") as f:
                files[side] = f.read()
    return files, main, _CORPUS_EXT[fmt], name
