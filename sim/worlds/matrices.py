"""
Seeded homogeneous matrices by class, and an independent implementation of the small amount of
rotation algebra the reference models need (own Rodrigues, own quaternion->matrix, own determinant).
Nothing here imports trimesh.
"""
import math

import numpy as np

CLASSES_3D = [
    "identity",
    "translation",
    "rigid",
    "uniform_scale",
    "similarity",
    "mirror",
    "rot_mirror",
    "aniso",
    "neg_aniso",
    "shear",
    "affine",
]
SIMILARITY_CLASSES = {"identity", "translation", "rigid", "uniform_scale", "similarity", "mirror", "rot_mirror"}
RIGID_CLASSES = {"identity", "translation", "rigid"}


def rodrigues(axis, angle):
    """Rotation matrix (3,3) about `axis` by `angle` radians: R = I + sin K + (1-cos) K^2."""
    a = np.asarray(axis, dtype=np.float64)
    a = a / math.sqrt(float(a @ a))
    K = np.array([[0.0, -a[2], a[1]], [a[2], 0.0, -a[0]], [-a[1], a[0], 0.0]])
    return np.eye(3) + math.sin(angle) * K + (1.0 - math.cos(angle)) * (K @ K)


def quat_to_R(q):
    """Unit quaternion [w, x, y, z] -> rotation matrix (3,3)."""
    w, x, y, z = (float(i) for i in q)
    n = math.sqrt(w * w + x * x + y * y + z * z)
    w, x, y, z = w / n, x / n, y / n, z / n
    return np.array(
        [
            [1 - 2 * (y * y + z * z), 2 * (x * y - z * w), 2 * (x * z + y * w)],
            [2 * (x * y + z * w), 1 - 2 * (x * x + z * z), 2 * (y * z - x * w)],
            [2 * (x * z - y * w), 2 * (y * z + x * w), 1 - 2 * (x * x + y * y)],
        ]
    )


def hom(R=None, t=None):
    M = np.eye(4)
    if R is not None:
        M[:3, :3] = R
    if t is not None:
        M[:3, 3] = t
    return M


def det3(M):
    M = np.asarray(M, dtype=np.float64)
    a, b, c = M[0, :3]
    d, e, f = M[1, :3]
    g, h, i = M[2, :3]
    return float(a * (e * i - f * h) - b * (d * i - f * g) + c * (d * h - e * g))


def apply(M, pts):
    """Homogeneous application written out: p -> R p + t."""
    M = np.asarray(M, dtype=np.float64)
    pts = np.asarray(pts, dtype=np.float64)
    d = M.shape[0] - 1
    return pts @ M[:d, :d].T + M[:d, d]


def rand_unit(rng):
    while True:
        v = np.array([rng.uniform(-1, 1) for _ in range(3)])
        n = float(np.linalg.norm(v))
        if 0.2 < n <= 1.0:
            return v / n


def rand_rotation(rng):
    """Exactly orthonormal to ~1e-16: built from one Rodrigues rotation with a generic angle."""
    return rodrigues(rand_unit(rng), rng.uniform(0.3, 2.8) * rng.choice([-1, 1]))


def rand_translation(rng, scale=1.0):
    return np.array([rng.uniform(0.05, 2.0) * rng.choice([-1, 1]) * scale for _ in range(3)])


def rand_scale(rng):
    """A scale factor well away from 1 and 0."""
    return rng.choice([rng.uniform(0.3, 0.8), rng.uniform(1.3, 3.0)])


def make(rng, cls, scale=1.0):
    """A (4,4) matrix of the named class; magnitudes are O(1e-1..1) so effects are never tiny."""
    if cls == "identity":
        return np.eye(4)
    if cls == "translation":
        return hom(None, rand_translation(rng, scale))
    if cls == "rigid":
        return hom(rand_rotation(rng), rand_translation(rng, scale))
    if cls == "uniform_scale":
        return hom(np.eye(3) * rand_scale(rng), None)
    if cls == "similarity":
        return hom(rand_rotation(rng) * rand_scale(rng), rand_translation(rng, scale))
    if cls == "mirror":
        d = np.ones(3)
        d[rng.randrange(3)] = -1.0
        return hom(np.diag(d), rand_translation(rng, scale) if rng.random() < 0.5 else None)
    if cls == "rot_mirror":
        d = np.ones(3)
        d[rng.randrange(3)] = -1.0
        return hom(rand_rotation(rng) @ np.diag(d) * (rand_scale(rng) if rng.random() < 0.5 else 1.0), rand_translation(rng, scale))
    if cls == "aniso":
        s = [rand_scale(rng) for _ in range(3)]
        if abs(s[0] - s[1]) < 0.2:
            s[1] = s[0] * 1.7
        return hom(np.diag(s), rand_translation(rng, scale) if rng.random() < 0.5 else None)
    if cls == "neg_aniso":
        s = [rand_scale(rng) for _ in range(3)]
        if abs(s[0] - s[1]) < 0.2:
            s[1] = s[0] * 1.7
        k = rng.choice([1, 3])
        for i in rng.sample(range(3), k):
            s[i] = -s[i]
        return hom(np.diag(s), rand_translation(rng, scale) if rng.random() < 0.5 else None)
    if cls == "shear":
        S = np.eye(3)
        i, j = rng.sample(range(3), 2)
        S[i, j] = rng.uniform(0.3, 1.2) * rng.choice([-1, 1])
        return hom(S, rand_translation(rng, scale) if rng.random() < 0.5 else None)
    if cls == "affine":
        while True:
            A = np.array([[rng.uniform(-1.5, 1.5) for _ in range(3)] for _ in range(3)])
            sv = np.linalg.svd(A, compute_uv=False)
            if sv[-1] > 0.3 and sv[0] / sv[-1] < 8:
                return hom(A, rand_translation(rng, scale))
    raise ValueError(cls)


def simpler(cls):
    """Simpler members of the same class, as (4,4) lists, for the shrinker."""
    out = []
    if cls == "translation":
        out.append(hom(None, [1.0, 0.0, 0.0]))
    elif cls in ("rigid",):
        out.append(hom(rodrigues([0, 0, 1], math.pi / 2), None))
        out.append(hom(rodrigues([0, 0, 1], 1.0), None))
    elif cls in ("uniform_scale", "similarity"):
        out.append(hom(np.eye(3) * 2.0, None))
    elif cls in ("mirror", "rot_mirror"):
        out.append(hom(np.diag([-1.0, 1.0, 1.0]), None))
    elif cls == "aniso":
        out.append(hom(np.diag([1.0, 2.0, 3.0]), None))
        out.append(hom(np.diag([1.0, 1.0, 2.0]), None))
    elif cls == "neg_aniso":
        out.append(hom(np.diag([-1.0, 2.0, 3.0]), None))
    elif cls == "shear":
        S = np.eye(3)
        S[0, 1] = 1.0
        out.append(hom(S, None))
    elif cls == "affine":
        out.append(hom(np.array([[1.0, 0.5, 0.0], [0.0, 1.0, 0.0], [0.0, 0.0, 2.0]]), None))
    return [m.tolist() for m in out]


def similarity_factor(M):
    """s if the linear part is s*orthogonal (within 1e-9), else None."""
    A = np.asarray(M, dtype=np.float64)[:3, :3]
    s2 = float((A[0] @ A[0] + A[1] @ A[1] + A[2] @ A[2]) / 3.0)
    if s2 <= 0:
        return None
    if np.abs(A @ A.T - np.eye(3) * s2).max() <= 1e-9 * max(s2, 1.0):
        return math.sqrt(s2)
    return None
