"""
Well-formed but pathological documents ("amplifiers"): small inputs whose naive interpretation is much larger than the input -
nested block references, node graphs that share children, component chains, thousands of equally named parts, deep nesting.
Pure functions of their integer parameters.
"""
import json, struct, base64, io, zipfile, math
import numpy as np

def dxf_nested(levels, fan):
    out = ["0", "SECTION", "2", "HEADER", "9", "$INSUNITS", "70", "1", "0", "ENDSEC", "0", "SECTION", "2", "BLOCKS"]
    out += ["0", "BLOCK", "8", "0", "2", "B0", "70", "0", "10", "0.0", "20", "0.0", "0", "LINE", "8", "0", "10", "0.0", "20", "0.0", "11", "1.0", "21", "0.5", "0", "ENDBLK"]
    for i in range(1, levels + 1):
        out += ["0", "BLOCK", "8", "0", "2", f"B{i}", "70", "0", "10", "0.0", "20", "0.0"]
        for k in range(fan):
            out += ["0", "INSERT", "8", "0", "2", f"B{i - 1}", "10", str(float(k) * 3.0), "20", str(float(i))]
        out += ["0", "ENDBLK"]
    out += ["0", "ENDSEC", "0", "SECTION", "2", "ENTITIES", "0", "LINE", "8", "0", "10", "0.0", "20", "0.0", "11", "0.0", "21", "9.0"]
    out += ["0", "INSERT", "8", "0", "2", f"B{levels}", "10", "0.0", "20", "0.0", "0", "ENDSEC", "0", "EOF"]
    return ("\n".join(out) + "\n").encode()

def dxf_flat(n_insert, n_lines):
    out = ["0", "SECTION", "2", "HEADER", "9", "$INSUNITS", "70", "1", "0", "ENDSEC", "0", "SECTION", "2", "BLOCKS", "0", "BLOCK", "8", "0", "2", "B0", "70", "0", "10", "0.0", "20", "0.0"]
    for j in range(n_lines):
        out += ["0", "LINE", "8", "0", "10", str(float(j)), "20", "0.0", "11", str(float(j) + 0.5), "21", "0.5"]
    out += ["0", "ENDBLK", "0", "ENDSEC", "0", "SECTION", "2", "ENTITIES"]
    for i in range(n_insert):
        out += ["0", "INSERT", "8", "0", "2", "B0", "10", "0.0", "20", str(float(i))]
    out += ["0", "ENDSEC", "0", "EOF"]
    return ("\n".join(out) + "\n").encode()

def gltf_dag(depth, fan, glb=True):
    V = np.array([[0, 0, 0], [1, 0, 0], [0, 1, 0]], dtype="<f4").tobytes()
    I = np.array([0, 1, 2, 0], dtype="<u2").tobytes()
    blob = V + I
    nodes = [{"mesh": 0}] + [{"children": [k - 1] * fan, "translation": [1.0, 0.0, 0.0]} for k in range(1, depth + 1)]
    doc = {"asset": {"version": "2.0"}, "scene": 0, "scenes": [{"nodes": [depth]}], "nodes": nodes,
           "meshes": [{"primitives": [{"attributes": {"POSITION": 0}, "indices": 1}]}],
           "accessors": [{"bufferView": 0, "componentType": 5126, "count": 3, "type": "VEC3", "min": [0, 0, 0], "max": [1, 1, 0]}, {"bufferView": 1, "componentType": 5123, "count": 3, "type": "SCALAR"}],
           "bufferViews": [{"buffer": 0, "byteOffset": 0, "byteLength": 36}, {"buffer": 0, "byteOffset": 36, "byteLength": 6}],
           "buffers": [{"byteLength": len(blob)}]}
    if not glb:
        doc["buffers"][0]["uri"] = "data:application/octet-stream;base64," + base64.b64encode(blob).decode()
        return json.dumps(doc).encode()
    js = json.dumps(doc).encode(); js += b" " * (-len(js) % 4)
    total = 12 + 8 + len(js) + 8 + len(blob)
    return b"glTF" + struct.pack("<II", 2, total) + struct.pack("<I", len(js)) + b"JSON" + js + struct.pack("<I", len(blob)) + b"BIN\x00" + blob

def gltf_cycle(n, glb=True, camera=None):
    """n nodes in a ring (n = 1: a node that lists itself as its child); with `camera`, every node of the ring carries a camera of
    that kind (usable or not: a loader that skips unusable cameras must still mark the node as visited)."""
    d = json.loads(gltf_dag(2, 1, glb=False))
    if n <= 1:
        d["nodes"] = [{"mesh": 0, "children": [0]}]
    else:
        d["nodes"] = [{"mesh": 0, "children": [1]}] + [{"children": [(k + 1) % n]} for k in range(1, n)]
    if camera is not None:
        cam = {"orthographic": {"type": "orthographic", "orthographic": {"xmag": 1.0, "ymag": 1.0, "zfar": 10.0, "znear": 0.1}},
               "no_znear": {"type": "perspective", "perspective": {"yfov": 0.7, "aspectRatio": 1.3}},
               "no_aspect": {"type": "perspective", "perspective": {"yfov": 0.7, "znear": 0.1}},
               "valid": {"type": "perspective", "perspective": {"yfov": 0.7, "znear": 0.1, "aspectRatio": 1.3}}}[camera]
        d["cameras"] = [cam]
        for node in d["nodes"]:
            node["camera"] = 0
    d["scenes"] = [{"nodes": [0]}]
    return json.dumps(d).encode()

def threemf_chain(depth, fan):
    objs = ['<object id="1" type="model"><mesh><vertices><vertex x="0" y="0" z="0"/><vertex x="1" y="0" z="0"/><vertex x="0" y="1" z="0"/><vertex x="0" y="0" z="1"/></vertices><triangles><triangle v1="0" v2="2" v3="1"/><triangle v1="0" v2="1" v3="3"/><triangle v1="0" v2="3" v2b="0" v3b="0" /></triangles></mesh></object>'.replace(' v2b="0" v3b="0"', '').replace('v2="3" />', 'v2="3" v3="2"/>')]
    for i in range(2, depth + 2):
        comps = "".join(f'<component objectid="{i - 1}" transform="1 0 0 0 1 0 0 0 1 {k} 0 0"/>' for k in range(fan))
        objs.append(f'<object id="{i}" type="model"><components>{comps}</components></object>')
    model = '<?xml version="1.0" encoding="UTF-8"?><model unit="millimeter" xml:lang="en-US" xmlns="http://schemas.microsoft.com/3dmanufacturing/core/2015/02"><resources>' + "".join(objs) + f'</resources><build><item objectid="{depth + 1}"/></build></model>'
    buf = io.BytesIO()
    with zipfile.ZipFile(buf, "w", zipfile.ZIP_DEFLATED) as z:
        z.writestr(zipfile.ZipInfo("[Content_Types].xml", (2020, 1, 1, 0, 0, 0)), '<?xml version="1.0" encoding="UTF-8"?><Types xmlns="http://schemas.openxmlformats.org/package/2006/content-types"><Default Extension="rels" ContentType="application/vnd.openxmlformats-package.relationships+xml"/><Default Extension="model" ContentType="application/vnd.ms-package.3dmanufacturing-3dmodel+xml"/></Types>')
        z.writestr(zipfile.ZipInfo("_rels/.rels", (2020, 1, 1, 0, 0, 0)), '<?xml version="1.0" encoding="UTF-8"?><Relationships xmlns="http://schemas.openxmlformats.org/package/2006/relationships"><Relationship Target="/3D/3dmodel.model" Id="rel0" Type="http://schemas.microsoft.com/3dmanufacturing/2013/01/3dmodel"/></Relationships>')
        z.writestr(zipfile.ZipInfo("3D/3dmodel.model", (2020, 1, 1, 0, 0, 0)), model)
    return buf.getvalue()

def obj_same_names(n):
    return ("".join(f"o part\nv {i} 0 0\nv {i} 1 0\nv {i} 0 1\nf {3*i+1} {3*i+2} {3*i+3}\n" for i in range(n))).encode()

def obj_wide_refs(digits, bad_line, sep):
    """Face lines whose vertex references have many digits (a model with tens of thousands of vertices, of which only the
    tail is here), one of them ending in a letter: one corrupted byte at the end of a long line of digits."""
    base = 10 ** (digits - 1) + 7
    ref = (lambda k: f"{k}/{k}/{k}") if sep == 2 else ((lambda k: f"{k}//{k}") if sep == 1 else (lambda k: f"{k}"))
    lines = [f"f {ref(base + 3 * i)} {ref(base + 3 * i + 1)} {ref(base + 3 * i + 2)}" for i in range(6)]
    lines[bad_line % 6] = lines[bad_line % 6][:-1] + "x"
    head = "".join(f"v {i} {i % 2} {i % 3}\nvt 0.{i} 0.5\nvn 0 0 1\n" for i in range(4))
    return (head + "\n".join(lines) + "\n").encode()


def stl_same_names(n):
    return ("".join(f"solid part\nfacet normal 0 0 1\nouter loop\nvertex {i} 0 0\nvertex {i} 1 0\nvertex {i} 0 1\nendloop\nendfacet\nendsolid part\n" for i in range(n))).encode()

def svg_nested(depth):
    return (b"<svg xmlns='http://www.w3.org/2000/svg'>" + b"<g transform='translate(1,0)'>" * depth + b"<path d='M 0 0 L 1 0 L 1 1 Z'/>" + b"</g>" * depth + b"</svg>")


FAMILIES = {
    "dxf": ["dxf_nested"],
    "glb": ["gltf_dag", "gltf_cycle_glb", "glb_image_bomb", "gltf_cycle_camera_glb"],
    "gltf": ["gltf_dag", "gltf_cycle", "gltf_cycle_camera"],
    "3mf": ["3mf_chain"],
    "obj": ["obj_same_names", "obj_wide_refs"],
    "obj_mtl": ["obj_same_names", "obj_wide_refs"],
    "stl_ascii": ["stl_same_names"],
    "stl": ["stl_same_names"],
    "svg": ["svg_nested"],
    "3dxml": ["3dxml_faces"],
    "bz2_stl": ["bz2_bomb"],
}


def build(sub, a, b, fmt):
    """The document for amplifier `sub` with integer parameters a, b (both reduced into the range that keeps a fault-free loader cheap)."""
    if sub == "dxf_nested":
        return dxf_nested(6 + a % 13, 2 + b % 2)
    if sub == "dxf_flat":
        return dxf_flat(30 + a % 300, 30 + b % 300)
    if sub == "gltf_dag":
        return gltf_dag(4 + a % 20, 2 + b % 2, glb=(fmt == "glb"))
    if sub == "gltf_cycle":
        return gltf_cycle(2 + a % 6)
    if sub == "gltf_cycle_camera":
        return gltf_cycle(1 + a % 4, camera=["orthographic", "no_znear", "no_aspect", "valid"][b % 4])
    if sub in ("gltf_cycle_glb", "gltf_cycle_camera_glb"):
        doc = gltf_cycle(2 + a % 6) if sub == "gltf_cycle_glb" else gltf_cycle(1 + a % 4, camera=["orthographic", "no_znear", "no_aspect", "valid"][b % 4])
        ref = gltf_dag(2, 1, glb=True)
        jl = int.from_bytes(ref[12:16], "little")
        rest = ref[20 + jl:]
        js = json.dumps({k: v for k, v in json.loads(doc).items() if k != "buffers"} | {"buffers": [{"byteLength": 42}]}).encode()
        js += b" " * (-len(js) % 4)
        return b"glTF" + struct.pack("<II", 2, 20 + len(js) + len(rest)) + struct.pack("<I", len(js)) + b"JSON" + js + rest
    if sub == "glb_image_bomb":
        return glb_image_bomb([2000, 5000, 8000][a % 3])
    if sub == "3mf_chain":
        return threemf_chain(4 + a % 9, 2)
    if sub == "3mf_chain_deep":
        return threemf_chain(17 + a % 8, 3)
    if sub == "obj_same_names":
        return obj_same_names(50 + a % 1500)
    if sub == "obj_wide_refs":
        return obj_wide_refs(3 + a % 5, b, (a // 5) % 3)
    if sub == "stl_same_names":
        return stl_same_names(20 + a % 120)
    if sub == "bz2_bomb":
        return bz2_bomb([16, 96][a % 2] * 2**20)
    if sub == "3dxml_faces":
        return threedxml_faces(50 + a % 600)
    if sub == "svg_nested":
        return svg_nested([20, 200, 255, 3000][a % 4])
    raise ValueError(sub)


# ----------------------------------------------------------------------------- decompression bombs
_BOMB_CACHE = {}


def png_zeros(side):
    """A valid RGBA PNG of side x side transparent black pixels, written without decoding anything (about 1/1000 of its pixel data)."""
    import zlib

    if side in _BOMB_CACHE:
        return _BOMB_CACHE[side]

    def chunk(tag, data):
        return struct.pack(">I", len(data)) + tag + data + struct.pack(">I", zlib.crc32(tag + data) & 0xFFFFFFFF)

    co = zlib.compressobj(6)
    row = bytes(1 + 4 * side)
    out = []
    block = row * 64
    full, rest = divmod(side, 64)
    for _ in range(full):
        out.append(co.compress(block))
    out.append(co.compress(row * rest))
    out.append(co.flush())
    png = b"\x89PNG\r\n\x1a\n" + chunk(b"IHDR", struct.pack(">IIBBBBB", side, side, 8, 6, 0, 0, 0)) + chunk(b"IDAT", b"".join(out)) + chunk(b"IEND", b"")
    _BOMB_CACHE[side] = png
    return png


def glb_image_bomb(side):
    """A one-triangle textured GLB whose embedded base colour texture is a side x side PNG of zeros."""
    png = png_zeros(side)
    V = np.array([[0, 0, 0], [1, 0, 0], [0, 1, 0]], dtype="<f4").tobytes()
    UV = np.array([[0, 0], [1, 0], [0, 1]], dtype="<f4").tobytes()
    I = np.array([0, 1, 2, 0], dtype="<u2").tobytes()
    blob = V + UV + I + png  # (I holds four uint16: the image view starts on a 4-byte boundary, offset 68)
    blob += b"\x00" * (-len(blob) % 4)
    doc = {"asset": {"version": "2.0"}, "scene": 0, "scenes": [{"nodes": [0]}], "nodes": [{"mesh": 0}],
           "meshes": [{"primitives": [{"attributes": {"POSITION": 0, "TEXCOORD_0": 1}, "indices": 2, "material": 0}]}],
           "materials": [{"pbrMetallicRoughness": {"baseColorTexture": {"index": 0}}}], "textures": [{"source": 0}], "images": [{"bufferView": 3, "mimeType": "image/png"}],
           "accessors": [{"bufferView": 0, "componentType": 5126, "count": 3, "type": "VEC3", "min": [0, 0, 0], "max": [1, 1, 0]}, {"bufferView": 1, "componentType": 5126, "count": 3, "type": "VEC2"}, {"bufferView": 2, "componentType": 5123, "count": 3, "type": "SCALAR"}],
           "bufferViews": [{"buffer": 0, "byteOffset": 0, "byteLength": 36}, {"buffer": 0, "byteOffset": 36, "byteLength": 24}, {"buffer": 0, "byteOffset": 60, "byteLength": 6}, {"buffer": 0, "byteOffset": 68, "byteLength": len(png)}],
           "buffers": [{"byteLength": len(blob)}]}
    js = json.dumps(doc).encode()
    js += b" " * (-len(js) % 4)
    return b"glTF" + struct.pack("<II", 2, 28 + len(js) + len(blob)) + struct.pack("<I", len(js)) + b"JSON" + js + struct.pack("<I", len(blob)) + b"BIN\x00" + blob


def threedxml_faces(n):
    """The tree's own cube1.3dxml with its single <Face> element repeated n times inside one <Faces> element."""
    import os
    import re

    import trimesh

    path = os.path.join(os.path.dirname(os.path.dirname(os.path.abspath(trimesh.__file__))), "models", "cube1.3dxml")
    with zipfile.ZipFile(path) as z:
        members = [(i.filename, z.read(i.filename)) for i in z.infolist()]
    out = []
    for name, data in members:
        if name.endswith("Abaqus_Geometry.3DRep"):
            m = re.search(rb"<Face .*?</Face>", data, re.S)
            if m:
                data = data[: m.start()] + (m.group() + b"\n") * n + data[m.end():]
        out.append((name, data))
    buf = io.BytesIO()
    with zipfile.ZipFile(buf, "w", zipfile.ZIP_DEFLATED) as z:
        for name, data in out:
            z.writestr(zipfile.ZipInfo(name, (2020, 1, 1, 0, 0, 0)), data, compress_type=zipfile.ZIP_DEFLATED)
    return buf.getvalue()


def bz2_bomb(size):
    """A bz2 stream of an 84-byte binary STL header (zero triangles) followed by `size` zero bytes: a few hundred bytes in all."""
    import bz2

    if ("bz2", size) not in _BOMB_CACHE:
        co = bz2.BZ2Compressor(9)
        out = [co.compress(b"binary stl".ljust(80, b" ") + (0).to_bytes(4, "little"))]
        block = bytes(2**20)
        for _ in range(size // 2**20):
            out.append(co.compress(block))
        out.append(co.flush())
        _BOMB_CACHE[("bz2", size)] = b"".join(out)
    return _BOMB_CACHE[("bz2", size)]


# ----------------------------------------------------------------------------- linear families (for the doubling experiment)
# Documents whose size is proportional to n and whose content is n independent, trivial items: loading them must cost time
# proportional to n. (file type for the loader, builder)
def _gltf_many(n, what):
    d = json.loads(gltf_dag(1, 1, glb=False))
    if what == "meshes":
        d["meshes"] = [{"primitives": [{"attributes": {"POSITION": 0}, "indices": 1}]} for _ in range(n)]
        d["nodes"] = [{"mesh": k} for k in range(n)]
    elif what == "named_meshes":
        d["meshes"] = [{"name": "part", "primitives": [{"attributes": {"POSITION": 0}, "indices": 1}]} for _ in range(n)]
        d["nodes"] = [{"mesh": k, "name": "node"} for k in range(n)]
    elif what == "nodes":
        d["nodes"] = [{"mesh": 0, "translation": [float(k), 0.0, 0.0]} for k in range(n)]
    elif what == "primitives":
        d["meshes"] = [{"primitives": [{"attributes": {"POSITION": 0}, "indices": 1} for _ in range(n)]}]
        d["nodes"] = [{"mesh": 0}]
    d["scenes"] = [{"nodes": list(range(len(d["nodes"])))}]
    return json.dumps(d).encode()


def _ply_ascii(n, what):
    if what == "faces":
        head = f"ply\nformat ascii 1.0\nelement vertex {3 * n}\nproperty float x\nproperty float y\nproperty float z\nelement face {n}\nproperty list uchar int vertex_indices\nend_header\n"
        body = "".join(f"{i} 0 0\n{i} 1 0\n{i} 0 1\n" for i in range(n)) + "".join(f"3 {3 * i} {3 * i + 1} {3 * i + 2}\n" for i in range(n))
        return (head + body).encode()
    if what == "properties":
        # one vertex element with n scalar properties
        head = "ply\nformat ascii 1.0\nelement vertex 3\nproperty float x\nproperty float y\nproperty float z\n" + "".join(f"property float q{i}\n" for i in range(n)) + "element face 1\nproperty list uchar int vertex_indices\nend_header\n"
        rows = "".join(f"{k} {k % 2} {k // 2} " + " ".join("0" for _ in range(n)) + "\n" for k in range(3))
        return (head + rows + "3 0 1 2\n").encode()
    raise ValueError(what)


def _threemf_flat(n):
    tri = '<mesh><vertices><vertex x="0" y="0" z="0"/><vertex x="1" y="0" z="0"/><vertex x="0" y="1" z="0"/><vertex x="0" y="0" z="1"/></vertices><triangles><triangle v1="0" v2="2" v3="1"/><triangle v1="0" v2="1" v3="3"/><triangle v1="1" v2="2" v3="3"/><triangle v1="0" v2="3" v3="2"/></triangles></mesh>'
    objs = "".join(f'<object id="{i + 1}" type="model">{tri}</object>' for i in range(n))
    items = "".join(f'<item objectid="{i + 1}"/>' for i in range(n))
    model = '<?xml version="1.0" encoding="UTF-8"?><model unit="millimeter" xml:lang="en-US" xmlns="http://schemas.microsoft.com/3dmanufacturing/core/2015/02"><resources>' + objs + "</resources><build>" + items + "</build></model>"
    buf = io.BytesIO()
    with zipfile.ZipFile(buf, "w", zipfile.ZIP_DEFLATED) as z:
        z.writestr(zipfile.ZipInfo("[Content_Types].xml", (2020, 1, 1, 0, 0, 0)), '<?xml version="1.0" encoding="UTF-8"?><Types xmlns="http://schemas.openxmlformats.org/package/2006/content-types"><Default Extension="rels" ContentType="application/vnd.openxmlformats-package.relationships+xml"/><Default Extension="model" ContentType="application/vnd.ms-package.3dmanufacturing-3dmodel+xml"/></Types>')
        z.writestr(zipfile.ZipInfo("_rels/.rels", (2020, 1, 1, 0, 0, 0)), '<?xml version="1.0" encoding="UTF-8"?><Relationships xmlns="http://schemas.openxmlformats.org/package/2006/relationships"><Relationship Target="/3D/3dmodel.model" Id="rel0" Type="http://schemas.microsoft.com/3dmanufacturing/2013/01/3dmodel"/></Relationships>')
        z.writestr(zipfile.ZipInfo("3D/3dmodel.model", (2020, 1, 1, 0, 0, 0)), model)
    return buf.getvalue()


def _dxf_lines(n, layers=False):
    out = ["0", "SECTION", "2", "HEADER", "9", "$INSUNITS", "70", "1", "0", "ENDSEC", "0", "SECTION", "2", "ENTITIES"]
    for j in range(n):
        out += ["0", "LINE", "8", (f"L{j}" if layers else "0"), "10", str(float(3 * j)), "20", "0.0", "11", str(float(3 * j) + 1.0), "21", "0.5"]
    out += ["0", "ENDSEC", "0", "EOF"]
    return ("\n".join(out) + "\n").encode()


LINEAR = {
    "obj_same_names": ("obj", obj_same_names),
    "obj_distinct_names": ("obj", lambda n: ("".join(f"o part{i}\nv {i} 0 0\nv {i} 1 0\nv {i} 0 1\nf {3*i+1} {3*i+2} {3*i+3}\n" for i in range(n))).encode()),
    "obj_material_groups": ("obj", lambda n: ("o part\n" + "".join(f"usemtl m{i}\nv {i} 0 0\nv {i} 1 0\nv {i} 0 1\nf {3*i+1} {3*i+2} {3*i+3}\n" for i in range(n))).encode()),
    "obj_one_material_many_groups": ("obj", lambda n: ("".join(f"g grp\nusemtl m\nv {i} 0 0\nv {i} 1 0\nv {i} 0 1\nf {3*i+1} {3*i+2} {3*i+3}\n" for i in range(n))).encode()),
    "stl_same_names": ("stl", stl_same_names),
    "stl_distinct_names": ("stl", lambda n: ("".join(f"solid part{i}\nfacet normal 0 0 1\nouter loop\nvertex {i} 0 0\nvertex {i} 1 0\nvertex {i} 0 1\nendloop\nendfacet\nendsolid part{i}\n" for i in range(n))).encode()),
    "gltf_unnamed_meshes": ("gltf", lambda n: _gltf_many(n, "meshes")),
    "gltf_named_meshes": ("gltf", lambda n: _gltf_many(n, "named_meshes")),
    "gltf_nodes": ("gltf", lambda n: _gltf_many(n, "nodes")),
    "gltf_primitives": ("gltf", lambda n: _gltf_many(n, "primitives")),
    "ply_faces": ("ply", lambda n: _ply_ascii(n, "faces")),
    "ply_properties": ("ply", lambda n: _ply_ascii(n, "properties")),
    "3mf_objects": ("3mf", _threemf_flat),
    "dxf_lines": ("dxf", _dxf_lines),
    "dxf_lines_layers": ("dxf", lambda n: _dxf_lines(n, layers=True)),
    "svg_paths": ("svg", lambda n: (b"<svg xmlns='http://www.w3.org/2000/svg'>" + b"".join(f"<path d='M {3 * i} 0 L {3 * i + 1} 0 L {3 * i + 1} 1 Z'/>".encode() for i in range(n)) + b"</svg>")),
    "svg_nested": ("svg", svg_nested),
    "off_faces": ("off", lambda n: (f"OFF\n{3 * n} {n} 0\n" + "".join(f"{i} 0 0\n{i} 1 0\n{i} 0 1\n" for i in range(n)) + "".join(f"3 {3 * i} {3 * i + 1} {3 * i + 2}\n" for i in range(n))).encode()),
    "xyz_points": ("xyz", lambda n: ("".join(f"{i} {i % 7} {i % 3}\n" for i in range(n))).encode()),
}


def _obj_alternating(n):
    """One object, two materials, faces not sorted by material: n switches back to a material used before."""
    head = "o part\nv 0 0 0\nv 1 0 0\nv 0 1 0\nv 0 0 1\n"
    return (head + "".join(f"usemtl m{i % 2}\nf 1 2 {3 + i % 2}\n" for i in range(n))).encode()


LINEAR["obj_alternating_materials"] = ("obj", _obj_alternating)


LINEAR["stl_empty_solids"] = ("stl", lambda n: ("".join(f"solid s{i}\nendsolid s{i}\n" for i in range(n)) + "solid t\nfacet normal 0 0 1\nouter loop\nvertex 0 0 0\nvertex 1 0 0\nvertex 0 1 0\nendloop\nendfacet\nendsolid t\n").encode())
LINEAR["off_comments"] = ("off", lambda n: ("OFF\n" + "".join(f"# comment number {i}\n" for i in range(n)) + "3 1 0\n0 0 0\n1 0 0\n0 1 0\n3 0 1 2\n").encode())
