"""
Seeded small triangle meshes in general position, generated without trimesh:
raw (vertices, faces) as numpy arrays built from a JSON recipe.
"""
import math

import numpy as np

BASES = ["tetra", "box", "octa", "icosa", "icosa1", "prism5", "prism8", "torus", "two_boxes", "open_box", "open_icosa1", "icosa2"]
VARIANTS = ["plain", "plain", "plain", "dup_vertices", "unreferenced", "degenerate_face", "duplicate_face", "flipped_some", "unmerged", "near_dup"]


def _tetra():
    V = np.array([[1, 1, 1], [1, -1, -1], [-1, 1, -1], [-1, -1, 1]], dtype=float)
    F = np.array([[0, 1, 2], [0, 3, 1], [0, 2, 3], [1, 3, 2]])
    return V, F


def _box():
    V = np.array([[x, y, z] for x in (-1, 1) for y in (-1, 1) for z in (-1, 1)], dtype=float)
    quads = [[0, 1, 3, 2], [4, 6, 7, 5], [0, 4, 5, 1], [2, 3, 7, 6], [0, 2, 6, 4], [1, 5, 7, 3]]
    F = []
    for a, b, c, d in quads:
        F += [[a, b, c], [a, c, d]]
    return V, np.array(F)


def _octa():
    V = np.array([[1, 0, 0], [-1, 0, 0], [0, 1, 0], [0, -1, 0], [0, 0, 1], [0, 0, -1]], dtype=float)
    F = np.array([[0, 2, 4], [2, 1, 4], [1, 3, 4], [3, 0, 4], [2, 0, 5], [1, 2, 5], [3, 1, 5], [0, 3, 5]])
    return V, F


def _icosa():
    t = (1 + math.sqrt(5)) / 2
    V = np.array(
        [[-1, t, 0], [1, t, 0], [-1, -t, 0], [1, -t, 0], [0, -1, t], [0, 1, t], [0, -1, -t], [0, 1, -t], [t, 0, -1], [t, 0, 1], [-t, 0, -1], [-t, 0, 1]],
        dtype=float,
    )
    F = np.array(
        [[0, 11, 5], [0, 5, 1], [0, 1, 7], [0, 7, 10], [0, 10, 11], [1, 5, 9], [5, 11, 4], [11, 10, 2], [10, 7, 6], [7, 1, 8],
         [3, 9, 4], [3, 4, 2], [3, 2, 6], [3, 6, 8], [3, 8, 9], [4, 9, 5], [2, 4, 11], [6, 2, 10], [8, 6, 7], [9, 8, 1]]
    )
    return V / np.linalg.norm(V[0]), F


def _subdivide(V, F, project=True):
    V = [tuple(v) for v in V]
    cache = {}
    out = []

    def mid(a, b):
        k = (min(a, b), max(a, b))
        if k not in cache:
            m = (np.array(V[a]) + np.array(V[b])) / 2
            if project:
                m = m / np.linalg.norm(m)
            V.append(tuple(m))
            cache[k] = len(V) - 1
        return cache[k]

    for a, b, c in F:
        ab, bc, ca = mid(a, b), mid(b, c), mid(c, a)
        out += [[a, ab, ca], [ab, b, bc], [ca, bc, c], [ab, bc, ca]]
    return np.array(V, dtype=float), np.array(out)


def _prism(n):
    ang = np.arange(n) * 2 * math.pi / n
    bot = np.column_stack([np.cos(ang), np.sin(ang), -np.ones(n)])
    top = np.column_stack([np.cos(ang), np.sin(ang), np.ones(n)])
    V = np.vstack([bot, top, [[0, 0, -1], [0, 0, 1]]])
    cb, ct = 2 * n, 2 * n + 1
    F = []
    for i in range(n):
        j = (i + 1) % n
        F += [[i, j, n + j], [i, n + j, n + i], [cb, j, i], [ct, n + i, n + j]]
    return V, np.array(F)


def _torus(nu=6, nv=5, R=1.0, r=0.4):
    V, F = [], []
    for i in range(nu):
        for j in range(nv):
            u, v = 2 * math.pi * i / nu, 2 * math.pi * j / nv
            V.append([(R + r * math.cos(v)) * math.cos(u), (R + r * math.cos(v)) * math.sin(u), r * math.sin(v)])
    for i in range(nu):
        for j in range(nv):
            a = i * nv + j
            b = ((i + 1) % nu) * nv + j
            c = ((i + 1) % nu) * nv + (j + 1) % nv
            d = i * nv + (j + 1) % nv
            F += [[a, b, c], [a, c, d]]
    return np.array(V), np.array(F)


def base_mesh(name):
    if name == "tetra":
        return _tetra()
    if name == "box":
        return _box()
    if name == "octa":
        return _octa()
    if name == "icosa":
        return _icosa()
    if name == "icosa1":
        return _subdivide(*_icosa())
    if name == "icosa2":
        return _subdivide(*_subdivide(*_icosa()))
    if name == "prism5":
        return _prism(5)
    if name == "prism8":
        return _prism(8)
    if name == "torus":
        return _torus()
    if name in ("grid260", "grid190"):
        # 67 600 vertices: more than unsigned 16-bit indices can address; 36 100: more than signed 16-bit ones can
        n = int(name[4:])
        x, y = np.meshgrid(np.arange(n, dtype=float), np.arange(n, dtype=float), indexing="ij")
        V = np.column_stack([x.ravel(), y.ravel(), np.sin(x.ravel() * 0.1) + np.cos(y.ravel() * 0.07)])
        idx = np.arange(n * n).reshape(n, n)
        a, b, c, d = idx[:-1, :-1].ravel(), idx[1:, :-1].ravel(), idx[1:, 1:].ravel(), idx[:-1, 1:].ravel()
        return V, np.vstack([np.column_stack([a, b, c]), np.column_stack([a, c, d])])
    if name == "two_boxes":
        V, F = _box()
        V2, F2 = _octa()
        return np.vstack([V, V2 * 0.7 + [3.5, 0.3, 0.2]]), np.vstack([F, F2 + len(V)])
    if name == "open_box":
        V, F = _box()
        return V, F[2:]
    if name == "open_icosa1":
        V, F = _subdivide(*_icosa())
        return V, F[:-7]
    raise ValueError(name)


def build(recipe):
    """
    recipe: {"base": name, "variant": name, "salt": int, "jitter": float, "offset": [x,y,z], "size": float}
    Returns float64 (n,3) vertices and int64 (m,3) faces. Watertight bases are outward wound.
    """
    V, F = base_mesh(recipe["base"])
    V = np.array(V, dtype=np.float64)
    F = np.array(F, dtype=np.int64)
    r = np.random.RandomState(int(recipe.get("salt", 0)) % (2**32))
    jitter = float(recipe.get("jitter", 0.04))
    V = V + r.uniform(-jitter, jitter, V.shape)
    # a generic (non-symmetric) stretch so principal axes are distinct
    V = V * np.array([1.0, 1.13, 0.87]) * float(recipe.get("size", 1.0)) + np.array(recipe.get("offset", [0.0, 0.0, 0.0]))
    variant = recipe.get("variant", "plain")
    if variant == "dup_vertices":
        # duplicate two vertices and let some faces use the duplicates
        k = min(2, len(V))
        idx = r.choice(len(V), k, replace=False)
        V = np.vstack([V, V[idx]])
        for n, i in enumerate(idx):
            rows = np.nonzero((F == i).any(axis=1))[0]
            if len(rows):
                row = rows[0]
                F[row][F[row] == i] = len(V) - k + n
    elif variant == "unreferenced":
        V = np.vstack([V[:1] + [0.3, 0.2, 0.1], V, V.mean(axis=0, keepdims=True) + [5.0, 0.1, 0.2]])
        F = F + 1
    elif variant == "degenerate_face":
        a, b = F[0][0], F[0][1]
        F = np.vstack([F, [[a, b, b]]])
    elif variant == "duplicate_face":
        F = np.vstack([F, F[:1], F[1:2][:, [1, 2, 0]]])
    elif variant == "flipped_some":
        k = max(1, len(F) // 3)
        idx = r.choice(len(F), k, replace=False)
        F[idx] = F[idx][:, ::-1]
    elif variant == "unmerged":
        V = V[F.reshape(-1)]
        F = np.arange(len(V)).reshape(-1, 3)
    elif variant == "near_dup":
        # the LAST face has its own copy of one corner, a little off the original: a coarse merge moves that triangle
        # (no face disappears), an exact one leaves it alone
        c = int(F[-1, 1])
        V = np.vstack([V, V[c] + np.array([0.011, -0.007, 0.009])])
        F[-1, 1] = len(V) - 1
    elif variant == "no_faces":
        # vertices without a single face (what is left after every face was masked away)
        F = np.zeros((0, 3), dtype=np.int64)
    return np.ascontiguousarray(V), np.ascontiguousarray(F)


def random_recipe(rng, bases=None, variants=None, max_faces=None):
    base = rng.choice(bases or BASES)
    return {
        "base": base,
        "variant": rng.choice(variants or VARIANTS),
        "salt": rng.randrange(2**31),
        "jitter": rng.choice([0.03, 0.05]),
        "offset": [round(rng.uniform(-2, 2), 3) for _ in range(3)] if rng.random() < 0.6 else [0.0, 0.0, 0.0],
        "size": rng.choice([1.0, 1.0, 0.35, 4.0]),
    }


def diag(V):
    V = np.asarray(V, dtype=float)
    V = V[np.isfinite(V).all(axis=1)] if V.ndim == 2 and len(V) else V
    if V.size == 0:
        return 1.0
    return float(max(np.linalg.norm(np.ptp(V, axis=0)), np.abs(V).max(), 1e-6))
